// Package vtime stands in for the timer functions of package time in
// instrumented code. Under the scheduler a timer is a task of its own whose
// single step is "the timer fires": the explorer decides when that happens
// relative to every other step (a timer landing first is an environment
// answer like any other), and in the default schedule timers fire last, i.e.
// only once everything else has run or is blocked. Outside a scheduler the
// functions are the real ones.
package vtime

import (
	"time"

	"verif/sched"
)

// epoch is the value every modelled timer delivers (a fixed value keeps state keys and replays deterministic).
var epoch = time.Unix(0, 0)

type Timer struct {
	C       <-chan time.Time
	c       chan time.Time
	real    *time.Timer
	f       func()
	fired   bool
	stopped bool
	gen     int
}

func (t *Timer) arm() {
	t.fired, t.stopped = false, false
	t.gen++
	gen := t.gen
	sched.GoTimer(func() {
		if t.stopped || t.fired || gen != t.gen {
			return
		}
		t.fired = true
		if t.f != nil {
			t.f()
			return
		}
		if len(t.c) == 0 { // capacity 1; a tick nobody took is dropped, as in package time
			sched.Send(t.c, epoch)
		}
	})
}

func NewTimer(d time.Duration) *Timer {
	if !sched.Active() {
		rt := time.NewTimer(d)
		return &Timer{C: rt.C, real: rt}
	}
	c := make(chan time.Time, 1)
	t := &Timer{C: c, c: c}
	t.arm()
	return t
}

func AfterFunc(d time.Duration, f func()) *Timer {
	if !sched.Active() {
		return &Timer{real: time.AfterFunc(d, f)}
	}
	t := &Timer{f: f}
	t.arm()
	return t
}

func After(d time.Duration) <-chan time.Time { return NewTimer(d).C }

func (t *Timer) Stop() bool {
	if t.real != nil {
		return t.real.Stop()
	}
	sched.Yield()
	active := !t.fired && !t.stopped
	t.stopped = true
	return active
}

func (t *Timer) Reset(d time.Duration) bool {
	if t.real != nil {
		return t.real.Reset(d)
	}
	sched.Yield()
	active := !t.fired && !t.stopped
	if !sched.Active() {
		return active
	}
	t.arm()
	return active
}

// Sleep is a scheduling point: anything may happen while a task sleeps.
func Sleep(d time.Duration) {
	if !sched.Active() {
		time.Sleep(d)
		return
	}
	sched.Yield()
}

// maxTicks bounds the ticks a ticker delivers in one execution (a ticker
// never goes quiescent; the bound is the horizon of the model).
const maxTicks = 3

type Ticker struct {
	C       <-chan time.Time
	c       chan time.Time
	real    *time.Ticker
	stopped bool
}

func NewTicker(d time.Duration) *Ticker {
	if !sched.Active() {
		rt := time.NewTicker(d)
		return &Ticker{C: rt.C, real: rt}
	}
	c := make(chan time.Time, 1)
	t := &Ticker{C: c, c: c}
	sched.GoTimer(func() {
		for i := 0; i < maxTicks && !t.stopped; i++ {
			if len(c) == 0 {
				sched.Send(c, epoch)
			} else {
				sched.Yield()
			}
		}
	})
	return t
}

func Tick(d time.Duration) <-chan time.Time { return NewTicker(d).C }

func (t *Ticker) Stop() {
	if t.real != nil {
		t.real.Stop()
		return
	}
	sched.Yield()
	t.stopped = true
}

func (t *Ticker) Reset(d time.Duration) {
	if t.real != nil {
		t.real.Reset(d)
	}
}
