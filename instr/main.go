// instr is the typed source instrumenter: it loads packages of the CURRENT /repo
// working tree (and, for math/rand, of a dependency in the module cache),
// rewrites goroutine / channel / sync / math/rand / range-over-map constructs to
// the shims of this module, and writes the rewritten files plus an overlay.json
// for `go build -overlay`. /repo itself is never modified.
package main

import (
	"bytes"
	"encoding/json"
	"flag"
	"fmt"
	"go/ast"
	"go/format"
	"go/token"
	"go/types"
	"os"
	"path/filepath"
	"sort"
	"strconv"
	"strings"

	"golang.org/x/tools/go/ast/astutil"
	"golang.org/x/tools/go/packages"
)

const (
	schedPath = "verif/sched"
	vmapPath  = "verif/vmap"
	vsyncPath = "verif/vsync"
	vrandPath = "verif/vrand"
	vregPath  = "verif/vreg"
)

type rewriter struct {
	pkg                 *packages.Package
	file                *ast.File
	modes               map[string]bool
	needSched, needVmap bool
	timeName            string
	tmp                 int
	errs                []string
	counts              map[string]int
}

func (r *rewriter) fresh(p string) *ast.Ident {
	r.tmp++
	return ast.NewIdent(fmt.Sprintf("_vf%s%d", p, r.tmp))
}

func sel(pkg, name string) ast.Expr {
	return &ast.SelectorExpr{X: ast.NewIdent(pkg), Sel: ast.NewIdent(name)}
}
func call(fn ast.Expr, args ...ast.Expr) *ast.CallExpr {
	return &ast.CallExpr{Fun: fn, Args: args}
}

// the timer functions and types of package time that vtime models
var vtimeNames = map[string]bool{"After": true, "AfterFunc": true, "NewTimer": true, "Timer": true, "Sleep": true,
	"NewTicker": true, "Ticker": true, "Tick": true}

func (r *rewriter) isChan(e ast.Expr) bool {
	t := r.pkg.TypesInfo.TypeOf(e)
	if t == nil {
		return false
	}
	_, ok := t.Underlying().(*types.Chan)
	return ok
}
func (r *rewriter) isMap(e ast.Expr) bool {
	t := r.pkg.TypesInfo.TypeOf(e)
	if t == nil {
		return false
	}
	_, ok := t.Underlying().(*types.Map)
	return ok
}
func (r *rewriter) isBuiltin(e ast.Expr, name string) bool {
	id, ok := e.(*ast.Ident)
	if !ok || id.Name != name {
		return false
	}
	_, ok = r.pkg.TypesInfo.Uses[id].(*types.Builtin)
	return ok
}

func (r *rewriter) rewriteGo(g *ast.GoStmt) ast.Stmt {
	r.needSched = true
	r.counts["go"]++
	c := g.Call
	var lhs, rhs []ast.Expr
	f := r.fresh("f")
	lhs = append(lhs, f)
	rhs = append(rhs, c.Fun)
	var args []ast.Expr
	for _, a := range c.Args {
		id := r.fresh("a")
		lhs = append(lhs, id)
		rhs = append(rhs, a)
		args = append(args, id)
	}
	inner := &ast.CallExpr{Fun: f, Args: args}
	if c.Ellipsis != token.NoPos {
		inner.Ellipsis = 1
	}
	lit := &ast.FuncLit{Type: &ast.FuncType{Params: &ast.FieldList{}}, Body: &ast.BlockStmt{List: []ast.Stmt{&ast.ExprStmt{X: inner}}}}
	return &ast.BlockStmt{List: []ast.Stmt{
		&ast.AssignStmt{Lhs: lhs, Tok: token.DEFINE, Rhs: rhs},
		&ast.ExprStmt{X: call(sel("sched", "Go"), lit)},
	}}
}

// sub rewrites a node that is being moved into a replacement (Apply does not
// walk replacement nodes).
func (r *rewriter) subStmts(list []ast.Stmt) []ast.Stmt {
	b := &ast.BlockStmt{List: list}
	astutil.Apply(b, r.pre, r.post)
	return b.List
}

func (r *rewriter) subExpr(e ast.Expr) ast.Expr {
	h := &ast.ParenExpr{X: e}
	astutil.Apply(h, r.pre, r.post)
	return h.X
}

// rewriteSelect turns a select statement into sched.Select + switch.
func (r *rewriter) rewriteSelect(n *ast.SelectStmt) ast.Stmt {
	r.needSched = true
	r.counts["select"]++
	var pre []ast.Stmt
	var cases []ast.Expr
	var clauses []ast.Stmt
	hasDefault := false
	idx := r.fresh("i")
	val := r.fresh("v")
	okv := r.fresh("ok")
	use := func() ast.Stmt {
		return &ast.AssignStmt{Lhs: []ast.Expr{ast.NewIdent("_"), ast.NewIdent("_")}, Tok: token.ASSIGN, Rhs: []ast.Expr{ast.NewIdent(val.Name), ast.NewIdent(okv.Name)}}
	}
	k := 0
	for _, cl := range n.Body.List {
		cc := cl.(*ast.CommClause)
		body := r.subStmts(cc.Body)
		if cc.Comm == nil {
			hasDefault = true
			clauses = append(clauses, &ast.CaseClause{List: nil, Body: append([]ast.Stmt{use()}, body...)})
			continue
		}
		var head []ast.Stmt
		switch st := cc.Comm.(type) {
		case *ast.SendStmt:
			ch, v := r.fresh("c"), r.fresh("s")
			pre = append(pre, &ast.AssignStmt{Lhs: []ast.Expr{ch, v}, Tok: token.DEFINE, Rhs: []ast.Expr{r.subExpr(st.Chan), r.subExpr(st.Value)}})
			cases = append(cases, call(call(sel("sched", "SendCaseTo"), ch), v))
		case *ast.ExprStmt:
			u := st.X.(*ast.UnaryExpr)
			ch := r.fresh("c")
			pre = append(pre, &ast.AssignStmt{Lhs: []ast.Expr{ch}, Tok: token.DEFINE, Rhs: []ast.Expr{r.subExpr(u.X)}})
			cases = append(cases, call(sel("sched", "RecvCase"), ch))
		case *ast.AssignStmt:
			u := st.Rhs[0].(*ast.UnaryExpr)
			ch := r.fresh("c")
			pre = append(pre, &ast.AssignStmt{Lhs: []ast.Expr{ch}, Tok: token.DEFINE, Rhs: []ast.Expr{r.subExpr(u.X)}})
			cases = append(cases, call(sel("sched", "RecvCase"), ch))
			rhs := []ast.Expr{call(sel("sched", "RecvVal"), ch, ast.NewIdent(val.Name))}
			if len(st.Lhs) == 2 {
				rhs = append(rhs, ast.NewIdent(okv.Name))
			}
			head = append(head, &ast.AssignStmt{Lhs: st.Lhs, Tok: st.Tok, Rhs: rhs})
			if st.Tok == token.DEFINE {
				for _, l := range st.Lhs {
					if id, ok := l.(*ast.Ident); ok && id.Name != "_" {
						head = append(head, &ast.AssignStmt{Lhs: []ast.Expr{ast.NewIdent("_")}, Tok: token.ASSIGN, Rhs: []ast.Expr{ast.NewIdent(id.Name)}})
					}
				}
			}
		default:
			r.errs = append(r.errs, fmt.Sprintf("%s: unsupported select clause", r.pkg.Fset.Position(cc.Pos())))
		}
		clauses = append(clauses, &ast.CaseClause{List: []ast.Expr{&ast.BasicLit{Kind: token.INT, Value: strconv.Itoa(k)}}, Body: append(append([]ast.Stmt{use()}, head...), body...)})
		k++
	}
	hd := "false"
	if hasDefault {
		hd = "true"
	}
	args := append([]ast.Expr{ast.NewIdent(hd)}, cases...)
	sw := &ast.SwitchStmt{
		Init: &ast.AssignStmt{Lhs: []ast.Expr{idx, val, okv}, Tok: token.DEFINE, Rhs: []ast.Expr{call(sel("sched", "Select"), args...)}},
		Tag:  ast.NewIdent(idx.Name),
		Body: &ast.BlockStmt{List: clauses},
	}
	return &ast.BlockStmt{List: append(pre, sw)}
}

func (r *rewriter) pre(c *astutil.Cursor) bool {
	switch n := c.Node().(type) {
	case *ast.SelectStmt:
		if r.modes["sched"] {
			c.Replace(r.rewriteSelect(n))
			return false
		}
	case *ast.AssignStmt:
		if r.modes["sched"] && len(n.Lhs) == 2 && len(n.Rhs) == 1 {
			if u, ok := n.Rhs[0].(*ast.UnaryExpr); ok && u.Op == token.ARROW {
				r.needSched = true
				r.counts["recv"]++
				n.Rhs[0] = call(sel("sched", "Recv2"), u.X)
			}
		}
	case *ast.ValueSpec:
		if r.modes["sched"] && len(n.Names) == 2 && len(n.Values) == 1 {
			if u, ok := n.Values[0].(*ast.UnaryExpr); ok && u.Op == token.ARROW {
				r.needSched = true
				r.counts["recv"]++
				n.Values[0] = call(sel("sched", "Recv2"), u.X)
			}
		}
	}
	return true
}

func (r *rewriter) post(c *astutil.Cursor) bool {
	switch n := c.Node().(type) {
	case *ast.GoStmt:
		if r.modes["sched"] {
			c.Replace(r.rewriteGo(n))
		}
	case *ast.SelectorExpr:
		if r.modes["sched"] && vtimeNames[n.Sel.Name] {
			if id, ok := n.X.(*ast.Ident); ok {
				if pn, ok := r.pkg.TypesInfo.Uses[id].(*types.PkgName); ok && pn.Imported().Path() == "time" {
					r.timeName = id.Name
					r.counts["time"]++
					c.Replace(sel("vtime", n.Sel.Name))
				}
			}
		}
	case *ast.SendStmt:
		if r.modes["sched"] {
			r.needSched = true
			r.counts["send"]++
			c.Replace(&ast.ExprStmt{X: call(call(sel("sched", "SendTo"), n.Chan), n.Value)})
		}
	case *ast.UnaryExpr:
		if r.modes["sched"] && n.Op == token.ARROW {
			r.needSched = true
			r.counts["recv"]++
			c.Replace(call(sel("sched", "Recv"), n.X))
		}
	case *ast.CallExpr:
		if r.modes["sched"] && r.isBuiltin(n.Fun, "close") && len(n.Args) == 1 {
			r.needSched = true
			r.counts["close"]++
			c.Replace(call(sel("sched", "Close"), n.Args[0]))
		}
	case *ast.RangeStmt:
		if r.modes["sched"] && r.isChan(n.X) {
			r.needSched = true
			r.counts["range-chan"]++
			ch := r.fresh("c")
			ok := r.fresh("ok")
			tok := n.Tok
			key := n.Key
			if key == nil {
				key = ast.NewIdent("_")
				tok = token.DEFINE
			}
			body := []ast.Stmt{}
			if tok == token.DEFINE {
				body = append(body, &ast.AssignStmt{Lhs: []ast.Expr{key, ok}, Tok: token.DEFINE, Rhs: []ast.Expr{call(sel("sched", "Recv2"), ch)}})
			} else {
				v := r.fresh("v")
				body = append(body,
					&ast.AssignStmt{Lhs: []ast.Expr{v, ok}, Tok: token.DEFINE, Rhs: []ast.Expr{call(sel("sched", "Recv2"), ch)}},
					&ast.AssignStmt{Lhs: []ast.Expr{key}, Tok: token.ASSIGN, Rhs: []ast.Expr{v}})
			}
			body = append(body, &ast.IfStmt{Cond: &ast.UnaryExpr{Op: token.NOT, X: ok}, Body: &ast.BlockStmt{List: []ast.Stmt{&ast.BranchStmt{Tok: token.BREAK}}}})
			body = append(body, n.Body.List...)
			c.Replace(&ast.ForStmt{
				Init: &ast.AssignStmt{Lhs: []ast.Expr{ch}, Tok: token.DEFINE, Rhs: []ast.Expr{n.X}},
				Body: &ast.BlockStmt{List: body},
			})
		} else if r.modes["maprange"] && r.isMap(n.X) {
			r.needVmap = true
			r.counts["range-map"]++
			it := r.fresh("it")
			var pre []ast.Stmt
			mk := func(e ast.Expr, m string) {
				if e == nil {
					return
				}
				if id, ok := e.(*ast.Ident); ok && id.Name == "_" {
					return
				}
				pre = append(pre, &ast.AssignStmt{Lhs: []ast.Expr{e}, Tok: n.Tok, Rhs: []ast.Expr{call(&ast.SelectorExpr{X: it, Sel: ast.NewIdent(m)})}})
			}
			mk(n.Key, "Key")
			mk(n.Value, "Val")
			// keep the loop variables "used" exactly as in a range statement
			if n.Tok == token.DEFINE {
				for _, e := range []ast.Expr{n.Key, n.Value} {
					if id, ok := e.(*ast.Ident); ok && id.Name != "_" {
						pre = append(pre, &ast.AssignStmt{Lhs: []ast.Expr{ast.NewIdent("_")}, Tok: token.ASSIGN, Rhs: []ast.Expr{ast.NewIdent(id.Name)}})
					}
				}
			}
			c.Replace(&ast.ForStmt{
				Init: &ast.AssignStmt{Lhs: []ast.Expr{it}, Tok: token.DEFINE, Rhs: []ast.Expr{call(sel("vmap", "Iter"), n.X)}},
				Cond: call(&ast.SelectorExpr{X: it, Sel: ast.NewIdent("Next")}),
				Body: &ast.BlockStmt{List: append(pre, n.Body.List...)},
			})
		}
	}
	return true
}

func (r *rewriter) addYields() {
	for _, d := range r.file.Decls {
		fd, ok := d.(*ast.FuncDecl)
		if !ok || fd.Body == nil {
			continue
		}
		if fd.Name.Name == "init" {
			continue
		}
		ast.Inspect(fd.Body, func(n ast.Node) bool {
			ins := func(list []ast.Stmt) []ast.Stmt {
				for _, s := range list {
					switch s.(type) {
					case *ast.CaseClause, *ast.CommClause:
						return list // the body of a switch / select: statements go inside its clauses
					}
				}
				var out []ast.Stmt
				for _, s := range list {
					if _, isDecl := s.(*ast.DeclStmt); !isDecl {
						out = append(out, &ast.ExprStmt{X: call(sel("sched", "Yield"))})
						r.needSched = true
						r.counts["yield"]++
					}
					out = append(out, s)
				}
				return out
			}
			switch b := n.(type) {
			case *ast.BlockStmt:
				b.List = ins(b.List)
			case *ast.CaseClause:
				b.Body = ins(b.Body)
			case *ast.CommClause:
				b.Body = ins(b.Body)
			case *ast.FuncLit:
				return true
			}
			return true
		})
	}
}

func (r *rewriter) imports() {
	for _, im := range r.file.Imports {
		p, _ := strconv.Unquote(im.Path.Value)
		if p == "sync" && r.modes["sched"] {
			im.Path.Value = strconv.Quote(vsyncPath)
			if im.Name == nil {
				im.Name = ast.NewIdent("sync")
			}
			r.counts["sync-import"]++
		}
		if p == "sync/atomic" && r.modes["sched"] {
			if im.Name == nil {
				im.Name = ast.NewIdent("atomic")
			}
			im.Path.Value = strconv.Quote("verif/vatomic")
			r.counts["atomic-import"]++
		}
		if p == "math/rand" && r.modes["rand"] {
			if im.Name == nil {
				im.Name = ast.NewIdent("rand")
			}
			im.Path.Value = strconv.Quote(vrandPath)
			r.counts["rand-import"]++
		}
	}
	if r.needSched {
		astutil.AddNamedImport(r.pkg.Fset, r.file, "sched", schedPath)
	}
	if r.timeName != "" {
		astutil.AddNamedImport(r.pkg.Fset, r.file, "vtime", "verif/vtime")
		// keep the import of package time used
		r.file.Decls = append(r.file.Decls, &ast.GenDecl{Tok: token.VAR, Specs: []ast.Spec{&ast.ValueSpec{
			Names: []*ast.Ident{ast.NewIdent("_")}, Type: sel(r.timeName, "Duration")}}})
	}
	if r.needVmap {
		astutil.AddNamedImport(r.pkg.Fset, r.file, "vmap", vmapPath)
	}
}

func resetStmts(pkg *packages.Package, f *ast.File) []string {
	var out []string
	for _, d := range f.Decls {
		gd, ok := d.(*ast.GenDecl)
		if !ok || gd.Tok != token.VAR {
			continue
		}
		for _, sp := range gd.Specs {
			vs := sp.(*ast.ValueSpec)
			if len(vs.Values) == 0 {
				// no initialiser: the variable starts at its zero value (a cache filled lazily, a sync.Once)
				if vs.Type != nil {
					var tb bytes.Buffer
					format.Node(&tb, pkg.Fset, vs.Type)
					for _, n := range vs.Names {
						if n.Name != "_" {
							out = append(out, fmt.Sprintf("{ var verifZero %s; %s = verifZero }", tb.String(), n.Name))
						}
					}
				}
				continue
			}
			var names, vals []string
			blankOnly := true
			for _, n := range vs.Names {
				names = append(names, n.Name)
				if n.Name != "_" {
					blankOnly = false
				}
			}
			if blankOnly {
				continue
			}
			for _, v := range vs.Values {
				var vb bytes.Buffer
				format.Node(&vb, pkg.Fset, v)
				vals = append(vals, vb.String())
			}
			out = append(out, strings.Join(names, ", ")+" = "+strings.Join(vals, ", "))
		}
	}
	return out
}

func main() {
	out := flag.String("out", "", "output dir")
	spec := flag.String("spec", "", "pkg=mode,mode;pkg=mode  (modes: sched,rand,maprange,yield,reset)")
	flag.Parse()
	if *out == "" || *spec == "" {
		fmt.Fprintln(os.Stderr, "usage: instr -out dir -spec 'pkg=modes;...'")
		os.Exit(2)
	}
	pkgModes := map[string]map[string]bool{}
	var patterns []string
	for _, part := range strings.Split(*spec, ";") {
		kv := strings.SplitN(part, "=", 2)
		if len(kv) != 2 {
			continue
		}
		m := map[string]bool{}
		for _, x := range strings.Split(kv[1], ",") {
			m[x] = true
		}
		pkgModes[kv[0]] = m
		patterns = append(patterns, kv[0])
	}
	sort.Strings(patterns)
	cfg := &packages.Config{Mode: packages.NeedTypes | packages.NeedSyntax | packages.NeedTypesInfo | packages.NeedFiles | packages.NeedName | packages.NeedImports | packages.NeedDeps | packages.NeedCompiledGoFiles}
	pkgs, err := packages.Load(cfg, patterns...)
	if err != nil {
		fmt.Fprintln(os.Stderr, "load:", err)
		os.Exit(2)
	}
	overlay := map[string]string{}
	if err := os.MkdirAll(*out, 0o755); err != nil {
		fmt.Fprintln(os.Stderr, err)
		os.Exit(2)
	}
	var summary []string
	for _, p := range pkgs {
		if len(p.Errors) > 0 {
			fmt.Fprintln(os.Stderr, "load errors in", p.PkgPath, ":", p.Errors)
			os.Exit(2)
		}
		m := pkgModes[p.PkgPath]
		if m == nil {
			fmt.Fprintln(os.Stderr, "no modes for", p.PkgPath)
			os.Exit(2)
		}
		counts := map[string]int{}
		var resetFuncs, digestFuncs, initFuncs []string
		for i, f := range p.Syntax {
			r := &rewriter{pkg: p, file: f, modes: m, counts: counts}
			var rs []string
			if m["reset"] {
				rs = resetStmts(p, f)
			}
			var globals []string
			if m["digest"] {
				for _, d := range f.Decls {
					if gd, ok := d.(*ast.GenDecl); ok && gd.Tok == token.VAR {
						for _, sp := range gd.Specs {
							for _, n := range sp.(*ast.ValueSpec).Names {
								if n.Name != "_" {
									globals = append(globals, n.Name)
								}
							}
						}
					}
				}
				astutil.AddNamedImport(p.Fset, f, "verifmt", "fmt")
			}
			var inits []string
			if m["reset"] {
				// init functions are renamed and called from a new init, so that a reset can run them again
				for _, d := range f.Decls {
					if fd, ok := d.(*ast.FuncDecl); ok && fd.Recv == nil && fd.Name.Name == "init" {
						fd.Name = ast.NewIdent(fmt.Sprintf("verifInit%d_%d", i, len(inits)))
						inits = append(inits, fd.Name.Name)
					}
				}
			}
			f.Comments = nil
			astutil.Apply(f, r.pre, r.post)
			if m["yield"] {
				r.addYields()
			}
			r.imports()
			if len(r.errs) > 0 {
				fmt.Fprintln(os.Stderr, "unsupported construct:", strings.Join(r.errs, "; "))
				os.Exit(3)
			}
			var b bytes.Buffer
			b.WriteString("//go:build go1.18\n\n")
			if err := format.Node(&b, p.Fset, f); err != nil {
				fmt.Fprintln(os.Stderr, "print:", err)
				os.Exit(2)
			}
			if m["reset"] {
				fn := fmt.Sprintf("verifReset%d", i)
				fmt.Fprintf(&b, "\nfunc %s() {\n", fn)
				for _, st := range rs {
					fmt.Fprintf(&b, "\t%s\n", st)
				}
				b.WriteString("}\n")
				if len(inits) > 0 {
					b.WriteString("\nfunc init() {\n")
					for _, in := range inits {
						fmt.Fprintf(&b, "\t%s()\n", in)
					}
					b.WriteString("}\n")
					initFuncs = append(initFuncs, inits...)
				}
				resetFuncs = append(resetFuncs, fn)
				if i == len(p.Syntax)-1 {
					b.WriteString("\n// VerifResetGlobals re-evaluates the package-level initialisers in source order.\nfunc VerifResetGlobals() {\n")
					for _, fn := range resetFuncs {
						fmt.Fprintf(&b, "\t%s()\n", fn)
					}
					for _, fn := range initFuncs {
						fmt.Fprintf(&b, "\t%s()\n", fn)
					}
					b.WriteString("}\n")
				}
			}
			if m["digest"] {
				fn := fmt.Sprintf("verifDigest%d", i)
				fmt.Fprintf(&b, "\nfunc %s() string {\n\treturn verifmt.Sprint(%s)\n}\n", fn, strings.Join(append([]string{`""`}, globals...), ", "))
				digestFuncs = append(digestFuncs, fn+"()")
				if i == len(p.Syntax)-1 {
					fmt.Fprintf(&b, "\n// VerifGlobalsDigest renders every package-level variable.\nfunc VerifGlobalsDigest() string {\n\treturn %s\n}\n", strings.Join(digestFuncs, " + "))
				}
			}
			src := p.CompiledGoFiles[i]
			dst := filepath.Join(*out, strings.ReplaceAll(strings.TrimPrefix(src, "/"), "/", "__"))
			if err := os.WriteFile(dst, b.Bytes(), 0o644); err != nil {
				fmt.Fprintln(os.Stderr, err)
				os.Exit(2)
			}
			overlay[src] = dst
		}
		var cs []string
		for k, v := range counts {
			cs = append(cs, fmt.Sprintf("%s=%d", k, v))
		}
		sort.Strings(cs)
		summary = append(summary, fmt.Sprintf("%s[%s]", p.PkgPath, strings.Join(cs, " ")))
	}
	js, _ := json.MarshalIndent(map[string]any{"Replace": overlay}, "", " ")
	if err := os.WriteFile(filepath.Join(*out, "overlay.json"), js, 0o644); err != nil {
		fmt.Fprintln(os.Stderr, err)
		os.Exit(2)
	}
	sort.Strings(summary)
	fmt.Printf("instrumented %d files: %s\n", len(overlay), strings.Join(summary, " "))
}
