// Package sched is the cooperative scheduler. Tasks are real goroutines but
// exactly one runs at a time; every instrumented operation parks the caller and
// returns control to the scheduler, which asks the explorer (mc.Ctx) which
// enabled task runs next. When no scheduler is active every operation degrades
// to the plain Go operation, so instrumented packages still work normally
// (package initialisers, un-scheduled harness code).
package sched

import (
	"fmt"
	"hash/fnv"
	"reflect"
	"runtime"
	"sort"
	"strings"
	"sync"
	"time"

	"verif/mc"
)

type opKind int

const (
	opNone opKind = iota
	opStart
	opSend
	opRecv
	opClose
	opWgAdd
	opWgWait
	opYield
	opSpawn
	opLock
	opUnlock
	opRLock
	opRUnlock
	opSelect
)

var opNames = []string{"none", "start", "send", "recv", "close", "wg.Add", "wg.Wait", "yield", "go", "Lock", "Unlock", "RLock", "RUnlock", "select"}

type chanState struct {
	name   string
	cap    int
	buf    []any
	closed bool
	// index of the tasks parked on this channel, valid while stamp == Sched.stamp (see Sched.index)
	stamp  int
	ps, pr [2]*task
}

type lockState struct {
	name    string
	writer  *task
	readers int
}

type selCase struct {
	ch   *chanState
	send bool
	val  any
}

type task struct {
	name     string
	wake     chan struct{}
	kind     opKind
	ch       *chanState
	val      any
	ok       bool
	wg       *WaitGroup
	lk       *lockState
	delta    int
	done     bool
	served   bool // pending op was completed by a partner (rendezvous)
	hist     uint64
	ops      int
	spawns   int
	panicV   any
	fn       func()
	panicked bool
	pmsg     string
	cases    []selCase
	hasDef   bool
	selIdx   int
	lastRun  int
	created  int
	timers   int
	timer    bool
}

// Outcome of one scheduled execution.
type Outcome struct {
	Deadlock bool
	Horizon  bool
	Stuck    bool // a task ran for longer than the watchdog without reaching a scheduling point
	// Foreign: the running task is blocked in a primitive the scheduler does not model (io.Pipe, sync.Cond, a context,
	// a real mutex of an uninstrumented package ...). Under the cooperative scheduler nothing else can run to release
	// it, so this is an artefact of the harness, not a behaviour of the code: the execution is not to be judged.
	Foreign    bool
	ForeignWhy string
	Cut        bool // abandoned at an already-visited state; not to be judged
	Panics     []string
	Steps      int
	Tasks      int
	Blocked    []string // tasks parked when the execution ended (deadlock / leak)
	Sites      int
}

func (o Outcome) String() string {
	var p []string
	if o.Deadlock {
		p = append(p, "deadlock blocked="+strings.Join(o.Blocked, ","))
	}
	if o.Horizon {
		p = append(p, fmt.Sprintf("horizon exceeded (steps=%d tasks=%d)", o.Steps, o.Tasks))
	}
	if o.Stuck {
		p = append(p, "task stuck without reaching a scheduling point")
	}
	if o.Foreign {
		p = append(p, "task blocked outside the modelled primitives ("+o.ForeignWhy+")")
	}
	for _, x := range o.Panics {
		p = append(p, "panic "+x)
	}
	if len(p) == 0 {
		return "ok"
	}
	return strings.Join(p, "; ")
}

// Options of one scheduled execution.
type Options struct {
	Horizon     int           // max scheduling steps (default 100000)
	MaxTasks    int           // max tasks ever created (default 10000)
	Extra       func() string // digest of shared memory outside the modelled objects
	KeyRunning  bool          // include the running task in the state key (needed when preemptions are bounded)
	Watchdog    time.Duration // default 30s
	NoPreemptAt func(kind string) bool
	// RoundRobin changes the canonical order of the enabled tasks (and thereby the default schedule) from
	// "the running task first, then by name" (which runs spawned tasks depth first) to "least recently run
	// first": every task advances one operation in turn, which keeps as many tasks alive at once as possible.
	RoundRobin bool
}

type Sched struct {
	ctx      *mc.Ctx
	tasks    []*task
	cur      *task
	back     chan struct{}
	chans    map[uintptr]*chanState
	keep     []any
	wgl      []*WaitGroup
	locks    []*lockState
	opt      Options
	steps    int
	live     []*task // tasks not yet finished, in creation order
	en       []*task
	seen     int // tasks[:seen] have been entered into live
	stamp    int
	indexed  bool
	aborting bool
	noYield  bool // set while the scheduler itself calls into instrumented code
}

// S is the active scheduler (nil when none).
var S *Sched

const abortSentinel = "sched-abort-sentinel"

// Active reports whether a scheduler is running.
func Active() bool { return S != nil && S.cur != nil }

func (s *Sched) objName(t *task) string { return fmt.Sprintf("%s#%d", t.name, t.ops) }

func (s *Sched) chanOf(c any) *chanState {
	v := reflect.ValueOf(c)
	p := v.Pointer()
	cs, ok := s.chans[p]
	if !ok {
		cs = &chanState{name: s.objName(s.cur), cap: v.Cap()}
		s.chans[p] = cs
		s.keep = append(s.keep, c)
	}
	return cs
}

func (t *task) mix(parts ...any) {
	h := fnv.New64a()
	fmt.Fprintf(h, "%d|", t.hist)
	fmt.Fprint(h, parts...)
	t.hist = h.Sum64()
	t.ops++
}

func (s *Sched) park(t *task) {
	if s.aborting {
		panic(abortSentinel)
	}
	s.back <- struct{}{}
	<-t.wake
	if s.aborting {
		panic(abortSentinel)
	}
	if t.panicV != nil {
		p := t.panicV
		t.panicV = nil
		panic(p)
	}
}

func (s *Sched) newTask(name string, fn func()) *task {
	t := &task{name: name, wake: make(chan struct{}), kind: opStart, fn: fn, created: len(s.tasks)}
	s.tasks = append(s.tasks, t)
	return t
}

func (s *Sched) launch(t *task) {
	go func() {
		<-t.wake
		defer func() {
			if r := recover(); r != nil && !s.aborting && r != abortSentinel {
				t.pmsg = fmt.Sprint(r)
				t.panicked = true
			}
			t.done = true
			t.kind = opNone
			s.back <- struct{}{}
		}()
		if s.aborting {
			return
		}
		t.fn()
	}()
}

// ForeignBlock is the panic value with which Run abandons an execution whose running task is blocked in a primitive
// the scheduler does not model (see Outcome.Foreign).
type ForeignBlock struct {
	Why, Task string
	Step      int
}

func (f ForeignBlock) Error() string {
	return fmt.Sprintf("task %s blocked outside the modelled primitives at step %d: %s", f.Task, f.Step, f.Why)
}

// foreignBlocked looks at the goroutine of the running task (the one goroutine started by launch that is neither
// parked by the scheduler nor waiting for its first wake-up) and reports whether it is blocked in a wait state
// (channel, select, condition variable, mutex, semaphore) rather than running, runnable, sleeping or in a system call.
func foreignBlocked() (bool, string) {
	buf := make([]byte, 1<<20)
	for {
		n := runtime.Stack(buf, true)
		if n < len(buf) {
			buf = buf[:n]
			break
		}
		buf = make([]byte, 2*len(buf))
	}
	for _, g := range strings.Split(string(buf), "\n\n") {
		if !strings.Contains(g, "sched.(*Sched).launch.func1") || strings.Contains(g, "sched.(*Sched).park(") {
			continue
		}
		lines := strings.Split(g, "\n")
		if len(lines) < 2 || strings.Contains(lines[1], "sched.(*Sched).launch.func1") {
			continue // waiting for its first wake-up, or reporting its end
		}
		hdr := lines[0]
		i, j := strings.IndexByte(hdr, '['), strings.IndexByte(hdr, ']')
		if i < 0 || j < i {
			continue
		}
		state := hdr[i+1 : j]
		if k := strings.IndexByte(state, ','); k >= 0 {
			state = state[:k]
		}
		switch state {
		case "running", "runnable", "syscall", "sleep", "IO wait", "GC assist wait", "GC sweep wait", "GC worker (idle)":
			return false, state
		}
		return true, state + " in " + strings.TrimSpace(lines[1])
	}
	return false, "running task not found"
}

// hasParked returns the first task (in creation order) other than not that is parked in a plain send / receive on ch.
func (s *Sched) hasParked(kind opKind, ch *chanState, not *task) *task {
	if s.indexed {
		if ch.stamp != s.stamp {
			return nil
		}
		arr := &ch.ps
		if kind == opRecv {
			arr = &ch.pr
		}
		for _, o := range arr {
			if o != nil && o != not {
				return o
			}
		}
		return nil
	}
	for _, o := range s.live {
		if o != not && !o.done && !o.served && o.kind == kind && o.ch == ch {
			return o
		}
	}
	for _, o := range s.tasks[s.seen:] {
		if o != not && !o.done && !o.served && o.kind == kind && o.ch == ch {
			return o
		}
	}
	return nil
}

// index records, per channel, the first two tasks parked in a send and in a receive (two, because a lookup excludes
// one task); it is valid until the next operation is applied.
func (s *Sched) index() {
	s.stamp++
	for _, o := range s.live {
		if o.done || o.served || (o.kind != opSend && o.kind != opRecv) {
			continue
		}
		c := o.ch
		if c.stamp != s.stamp {
			c.stamp, c.ps, c.pr = s.stamp, [2]*task{}, [2]*task{}
		}
		arr := &c.ps
		if o.kind == opRecv {
			arr = &c.pr
		}
		if arr[0] == nil {
			arr[0] = o
		} else if arr[1] == nil {
			arr[1] = o
		}
	}
	s.indexed = true
}

func (s *Sched) sendReady(t *task, ch *chanState) bool {
	if ch.closed || len(ch.buf) < ch.cap {
		return true
	}
	return len(ch.buf) == 0 && s.hasParked(opRecv, ch, t) != nil
}

func (s *Sched) recvReady(t *task, ch *chanState) bool {
	if len(ch.buf) > 0 || ch.closed {
		return true
	}
	return s.hasParked(opSend, ch, t) != nil
}

func (s *Sched) enabled(t *task) bool {
	if t.done {
		return false
	}
	if t.served {
		return true
	}
	switch t.kind {
	case opStart, opClose, opWgAdd, opYield, opSpawn, opUnlock, opRUnlock:
		return true
	case opSend:
		return s.sendReady(t, t.ch)
	case opRecv:
		return s.recvReady(t, t.ch)
	case opWgWait:
		return t.wg.n == 0
	case opLock:
		return t.lk.writer == nil && t.lk.readers == 0
	case opRLock:
		return t.lk.writer == nil
	case opSelect:
		if t.hasDef {
			return true
		}
		for _, c := range t.cases {
			if c.ch == nil {
				continue
			}
			if c.send && s.sendReady(t, c.ch) || !c.send && s.recvReady(t, c.ch) {
				return true
			}
		}
		return false
	}
	return false
}

func (s *Sched) doSend(t *task, ch *chanState, v any) {
	if ch.closed {
		t.panicV = "send on closed channel"
		return
	}
	if len(ch.buf) == 0 {
		if o := s.hasParked(opRecv, ch, t); o != nil {
			o.val, o.ok, o.served = v, true, true
			o.mix("r", v)
			return
		}
	}
	ch.buf = append(ch.buf, v)
}

func (s *Sched) doRecv(t *task, ch *chanState) {
	if len(ch.buf) > 0 {
		t.val, t.ok = ch.buf[0], true
		ch.buf = ch.buf[1:]
		t.mix("r", t.val)
		return
	}
	if o := s.hasParked(opSend, ch, t); o != nil {
		t.val, t.ok = o.val, true
		o.served = true
		t.mix("r", t.val)
		return
	}
	t.val, t.ok = nil, false
	t.mix("rc")
}

// apply executes t's pending operation; t then resumes.
func (s *Sched) apply(t *task) {
	if t.served {
		t.served = false
		return
	}
	switch t.kind {
	case opSend:
		s.doSend(t, t.ch, t.val)
	case opRecv:
		s.doRecv(t, t.ch)
	case opClose:
		if t.ch.closed {
			t.panicV = "close of closed channel"
			return
		}
		t.ch.closed = true
		for _, o := range s.tasks {
			if o != t && !o.done && !o.served && o.kind == opSend && o.ch == t.ch {
				o.panicV, o.served = "send on closed channel", true
			}
		}
	case opWgAdd:
		t.wg.n += t.delta
		if t.wg.n < 0 {
			t.panicV = "sync: negative WaitGroup counter"
		}
	case opLock:
		t.lk.writer = t
	case opUnlock:
		if t.lk.writer == nil {
			t.panicV = "sync: unlock of unlocked mutex"
			return
		}
		t.lk.writer = nil
	case opRLock:
		t.lk.readers++
	case opRUnlock:
		if t.lk.readers == 0 {
			t.panicV = "sync: RUnlock of unlocked RWMutex"
			return
		}
		t.lk.readers--
	case opSelect:
		// ready cases in order; which one is a further choice
		var ready []int
		for i, c := range t.cases {
			if c.ch == nil {
				continue
			}
			if c.send && s.sendReady(t, c.ch) || !c.send && s.recvReady(t, c.ch) {
				ready = append(ready, i)
			}
		}
		if len(ready) == 0 {
			t.selIdx = -1 // default
			t.mix("sel-default")
			return
		}
		k := 0
		if len(ready) > 1 {
			k = s.ctx.Any("select", len(ready))
		}
		i := ready[k]
		t.selIdx = i
		c := t.cases[i]
		t.mix("sel", i)
		if c.send {
			s.doSend(t, c.ch, c.val)
		} else {
			s.doRecv(t, c.ch)
		}
	}
}

func (s *Sched) key() uint64 {
	var b strings.Builder
	ts := make([]string, 0, len(s.tasks))
	for _, t := range s.tasks {
		if t.done {
			if t.panicked {
				ts = append(ts, t.name+":P")
			} else {
				ts = append(ts, t.name+":D")
			}
			continue
		}
		ts = append(ts, fmt.Sprintf("%s:%d:%x:%v", t.name, t.kind, t.hist, t.served))
	}
	sort.Strings(ts)
	b.WriteString(strings.Join(ts, ","))
	cs := make([]string, 0, len(s.chans))
	for _, c := range s.chans {
		cs = append(cs, fmt.Sprintf("c%s:%v:%v", c.name, c.closed, c.buf))
	}
	sort.Strings(cs)
	b.WriteString("|" + strings.Join(cs, ","))
	for _, w := range s.wgl {
		fmt.Fprintf(&b, "|wg%s=%d", w.name, w.n)
	}
	for _, l := range s.locks {
		wn := ""
		if l.writer != nil {
			wn = l.writer.name
		}
		fmt.Fprintf(&b, "|lk%s=%s/%d", l.name, wn, l.readers)
	}
	if s.opt.KeyRunning && s.cur != nil && !s.cur.done {
		b.WriteString("|run=" + s.cur.name)
	}
	if s.opt.Extra != nil {
		s.noYield = true
		b.WriteString("|" + s.opt.Extra())
		s.noYield = false
	}
	return mc.H(b.String())
}

// Run executes main under the scheduler until quiescence, asking ctx for every
// scheduling decision.
func Run(ctx *mc.Ctx, opt Options, main func()) Outcome {
	if opt.Horizon == 0 {
		opt.Horizon = 100000
	}
	if opt.MaxTasks == 0 {
		opt.MaxTasks = 10000
	}
	if opt.Watchdog == 0 {
		opt.Watchdog = 30 * time.Second
	}
	s := &Sched{ctx: ctx, back: make(chan struct{}), chans: map[uintptr]*chanState{}, opt: opt}
	S = s
	defer func() { S = nil }()
	var out Outcome
	mt := s.newTask("m", main)
	s.launch(mt)
	timer := time.NewTimer(opt.Watchdog)
	defer timer.Stop()
	for {
		if s.steps >= opt.Horizon || len(s.tasks) > opt.MaxTasks {
			out.Horizon = true
			break
		}
		// only tasks that have not finished are looked at (a long run has thousands of finished tasks)
		live := s.live[:0]
		for _, t := range s.live {
			if !t.done {
				live = append(live, t)
			}
		}
		for _, t := range s.tasks[s.seen:] {
			if !t.done {
				live = append(live, t)
			}
		}
		s.live, s.seen = live, len(s.tasks)
		s.index()
		en := s.en[:0]
		for _, t := range s.live {
			if s.enabled(t) {
				en = append(en, t)
			}
		}
		s.en = en
		if len(en) == 0 {
			for _, t := range s.live {
				if !t.done {
					out.Deadlock = true
					out.Blocked = append(out.Blocked, fmt.Sprintf("%s@%s", t.name, opNames[t.kind]))
				}
			}
			break
		}
		less := func(a, b *task) bool {
			if (a == s.cur) != (b == s.cur) {
				return a == s.cur
			}
			return a.name < b.name
		}
		if opt.RoundRobin {
			less = func(a, b *task) bool {
				if a.timer != b.timer {
					return b.timer
				}
				if a.lastRun != b.lastRun {
					return a.lastRun < b.lastRun
				}
				return a.created < b.created
			}
		}
		// the default alternative is the least task in canonical order; the full order is only needed (and only
		// computed) when another alternative is taken
		m := 0
		for k := 1; k < len(en); k++ {
			if less(en[k], en[m]) {
				m = k
			}
		}
		en[0], en[m] = en[m], en[0]
		i := 0
		if len(en) > 1 {
			var cost []int
			if en[0] == s.cur && !opt.RoundRobin {
				cost = make([]int, len(en))
				for k := 1; k < len(en); k++ {
					cost[k] = 1
				}
			}
			var key uint64
			if ctx.Pruning() {
				key = s.key()
			}
			i = ctx.Sched("sched", len(en), cost, key)
			if i < 0 {
				out.Cut = true
				break
			}
			if i > 0 {
				rest := en[1:]
				sort.SliceStable(rest, func(a, b int) bool { return less(rest[a], rest[b]) })
			}
		}
		t := en[i]
		s.cur = t
		s.steps++
		t.lastRun = s.steps
		s.indexed = false
		s.apply(t)
		t.wake <- struct{}{}
		if !timer.Stop() {
			select {
			case <-timer.C:
			default:
			}
		}
		const probe = 2 * time.Second
		timer.Reset(probe)
		for waited := time.Duration(0); ; {
			progressed := false
			select {
			case <-s.back:
				progressed = true
			case <-timer.C:
			}
			if progressed {
				break
			}
			waited += probe
			if blocked, why := foreignBlocked(); blocked {
				// goroutines are leaked; the unit cannot go on. The panic travels up to the unit runner, which
				// records the unit as not decided (a cap), never as a violation.
				panic(ForeignBlock{Why: why, Task: t.name, Step: s.steps})
			}
			if waited >= opt.Watchdog {
				// the task never came back: it spins without a scheduling point
				out.Stuck = true
				out.Steps, out.Tasks = s.steps, len(s.tasks)
				return out // goroutines are leaked; the caller must stop exploring
			}
			timer.Reset(probe)
		}
		if t.done && t.panicked {
			out.Panics = append(out.Panics, t.name+": "+t.pmsg)
		}
	}
	out.Steps, out.Tasks = s.steps, len(s.tasks)
	// release parked goroutines so that they unwind and are collected
	s.aborting = true
	for i := 0; i < len(s.tasks); i++ {
		t := s.tasks[i]
		if !t.done {
			t.wake <- struct{}{}
			<-s.back
		}
	}
	return out
}

// --- operations used by instrumented code --------------------------------------

// Go spawns a task. Outside a scheduler it is a plain goroutine.
func Go(fn func()) {
	if !Active() {
		go fn()
		return
	}
	p := S.cur
	name := fmt.Sprintf("%s.%d", p.name, p.spawns)
	p.spawns++
	p.mix("go")
	t := S.newTask(name, fn)
	S.launch(t)
	p.kind = opSpawn
	S.park(p)
}

// GoTimer starts a task that stands for a timer: it is named so that it sorts after every ordinary task (in the
// default schedule a timer fires only when nothing else can run) and does not disturb the spawn-path names of
// ordinary tasks.
func GoTimer(fn func()) {
	if !Active() {
		go fn()
		return
	}
	p := S.cur
	name := fmt.Sprintf("~%s.t%d", p.name, p.timers)
	p.timers++
	p.mix("timer")
	t := S.newTask(name, fn)
	t.timer = true
	S.launch(t)
	p.kind = opSpawn
	S.park(p)
}

func Send[T any](c chan<- T, v T) {
	if !Active() {
		c <- v
		return
	}
	t := S.cur
	t.kind, t.ch, t.val = opSend, S.chanOf(c), v
	t.mix("s", t.ch.name, v)
	S.park(t)
}

func Recv2[T any](c <-chan T) (T, bool) {
	if !Active() {
		v, ok := <-c
		return v, ok
	}
	t := S.cur
	t.kind, t.ch = opRecv, S.chanOf(c)
	t.mix("rv", t.ch.name)
	S.park(t)
	var zero T
	if !t.ok {
		return zero, false
	}
	if t.val == nil {
		return zero, true
	}
	return t.val.(T), true
}

func Recv[T any](c <-chan T) T { v, _ := Recv2(c); return v }

func Close[T any](c chan<- T) {
	if !Active() {
		close(c)
		return
	}
	t := S.cur
	t.kind, t.ch = opClose, S.chanOf(c)
	t.mix("c", t.ch.name)
	S.park(t)
}

// Yield is a pure scheduling point (statement boundary).
func Yield() {
	if !Active() || S.noYield {
		return
	}
	t := S.cur
	t.kind = opYield
	t.mix("y")
	S.park(t)
}

// Note mixes a value into the running task's history (for harness tasks whose
// private state is not otherwise visible to the state key).
func Note(parts ...any) {
	if Active() {
		S.cur.mix(parts...)
		S.cur.ops--
	}
}

// --- select -------------------------------------------------------------------

// Case is one communication clause of a select.
type Case struct {
	c   selCase
	p   uintptr
	raw any
}

// SendTo and SendCaseTo fix the element type from the channel alone, so that the value is converted by ordinary
// assignability (errs <- &MyError{} on a chan error) exactly as in a send statement.
func SendTo[T any](c chan<- T) func(T) { return func(v T) { Send(c, v) } }
func SendCaseTo[T any](c chan<- T) func(T) Case {
	return func(v T) Case { return SendCase(c, v) }
}

func SendCase[T any](c chan<- T, v T) Case { return Case{c: selCase{send: true, val: v}, raw: c} }
func RecvCase[T any](c <-chan T) Case      { return Case{c: selCase{}, raw: c} }

// RecvVal converts the value received by Select to the element type of c.
func RecvVal[T any](c <-chan T, v any) T {
	if v == nil {
		var z T
		return z
	}
	return v.(T)
}

// Select returns the index of the chosen case (-1 = default), and for a receive
// the value and ok.
func Select(hasDefault bool, cases ...Case) (int, any, bool) {
	if !Active() {
		rc := make([]reflect.SelectCase, 0, len(cases)+1)
		for _, c := range cases {
			if c.c.send {
				cv := reflect.ValueOf(c.raw)
				sv := reflect.ValueOf(c.c.val)
				if !sv.IsValid() && cv.Kind() == reflect.Chan { // a nil interface value (e.g. a nil error)
					sv = reflect.Zero(cv.Type().Elem())
				}
				rc = append(rc, reflect.SelectCase{Dir: reflect.SelectSend, Chan: cv, Send: sv})
			} else {
				rc = append(rc, reflect.SelectCase{Dir: reflect.SelectRecv, Chan: reflect.ValueOf(c.raw)})
			}
		}
		if hasDefault {
			rc = append(rc, reflect.SelectCase{Dir: reflect.SelectDefault})
		}
		i, v, ok := reflect.Select(rc)
		if hasDefault && i == len(cases) {
			return -1, nil, false
		}
		if v.IsValid() {
			return i, v.Interface(), ok
		}
		return i, nil, ok
	}
	t := S.cur
	t.cases = t.cases[:0]
	for _, c := range cases {
		sc := c.c
		if !reflect.ValueOf(c.raw).IsNil() {
			sc.ch = S.chanOf(c.raw)
		}
		t.cases = append(t.cases, sc)
	}
	t.kind, t.hasDef = opSelect, hasDefault
	t.mix("select", len(cases), hasDefault)
	S.park(t)
	if t.selIdx < 0 {
		return -1, nil, false
	}
	if t.cases[t.selIdx].send {
		return t.selIdx, nil, false
	}
	return t.selIdx, t.val, t.ok
}

// --- sync replacements ----------------------------------------------------------

type WaitGroup struct {
	n    int
	name string
	real sync.WaitGroup
}

func (w *WaitGroup) reg() {
	if w.name == "" {
		w.name = S.objName(S.cur)
		S.wgl = append(S.wgl, w)
	}
}

func (w *WaitGroup) Add(d int) {
	if !Active() {
		w.real.Add(d)
		return
	}
	w.reg()
	t := S.cur
	t.kind, t.wg, t.delta = opWgAdd, w, d
	t.mix("a", w.name, d)
	S.park(t)
}
func (w *WaitGroup) Done() { w.Add(-1) }
func (w *WaitGroup) Wait() {
	if !Active() {
		w.real.Wait()
		return
	}
	w.reg()
	t := S.cur
	t.kind, t.wg = opWgWait, w
	t.mix("w", w.name)
	S.park(t)
}

type Mutex struct {
	st   *lockState
	real sync.Mutex
}

func lockOf(st **lockState) *lockState {
	if *st == nil {
		*st = &lockState{name: S.objName(S.cur)}
		S.locks = append(S.locks, *st)
	}
	return *st
}

func lockOp(st **lockState, k opKind, tag string) {
	t := S.cur
	t.kind, t.lk = k, lockOf(st)
	t.mix(tag, t.lk.name)
	S.park(t)
}

func (m *Mutex) Lock() {
	if !Active() {
		m.real.Lock()
		return
	}
	lockOp(&m.st, opLock, "L")
}
func (m *Mutex) Unlock() {
	if !Active() {
		m.real.Unlock()
		return
	}
	lockOp(&m.st, opUnlock, "U")
}

type RWMutex struct {
	st   *lockState
	real sync.RWMutex
}

func (m *RWMutex) Lock() {
	if !Active() {
		m.real.Lock()
		return
	}
	lockOp(&m.st, opLock, "L")
}
func (m *RWMutex) Unlock() {
	if !Active() {
		m.real.Unlock()
		return
	}
	lockOp(&m.st, opUnlock, "U")
}
func (m *RWMutex) RLock() {
	if !Active() {
		m.real.RLock()
		return
	}
	lockOp(&m.st, opRLock, "RL")
}
func (m *RWMutex) RUnlock() {
	if !Active() {
		m.real.RUnlock()
		return
	}
	lockOp(&m.st, opRUnlock, "RU")
}

// Once runs f once; concurrent callers wait for it (modelled with a mutex).
type Once struct {
	m    Mutex
	done bool
}

func (o *Once) Do(f func()) {
	o.m.Lock()
	defer o.m.Unlock()
	if !o.done {
		o.done = true
		f()
	}
}
