#!/usr/bin/env python3-vt
"""Validate MANIFEST.json and every evidence file against the schemas."""
import json, sys, glob, jsonschema
ok = True
m = json.load(open('/verif/MANIFEST.json')) if len(sys.argv) < 2 or sys.argv[1] != '--evidence-only' else None
if m is not None:
    jsonschema.validate(m, json.load(open('/root/.vp/MANIFEST.schema.json')))
    print('MANIFEST ok:', len(m['checks']), 'checks')
es = json.load(open('/root/.vp/EVIDENCE.schema.json'))
for f in sorted(glob.glob('/verif/evidence/*.json')):
    try:
        jsonschema.validate(json.load(open(f)), es)
        print('ok', f)
    except Exception as e:
        ok = False
        print('INVALID', f, str(e)[:300])
sys.exit(0 if ok else 1)
