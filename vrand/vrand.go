// Package vrand stands in for "math/rand" in instrumented packages: every draw
// through the package-level functions is a choice point of the explorer.
package vrand

import (
	"math/rand"

	"verif/mc"
)

// Enabled turns draws into explorer choices (only while an execution is in
// progress); otherwise the real math/rand is used.
var Enabled bool

// Draws counts the draws answered by the explorer (so a harness can tell that
// the code under test really draws through this package).
var Draws int

type Rand = rand.Rand
type Source = rand.Source
type Source64 = rand.Source64
type Zipf = rand.Zipf

func New(src Source) *Rand                             { return rand.New(src) }
func NewSource(seed int64) Source                      { return rand.NewSource(seed) }
func NewZipf(r *Rand, s, v float64, imax uint64) *Zipf { return rand.NewZipf(r, s, v, imax) }

func on() bool { return Enabled && mc.Cur != nil }

func Seed(seed int64) {
	if !on() {
		rand.Seed(seed)
	}
}

// Bounded makes every draw a deviation-bounded choice (answer 0 is the default, any other answer costs one deviation)
// instead of a full enumeration: for executions with many draws.
var Bounded bool

func Intn(n int) int {
	if n <= 0 {
		panic("invalid argument to Intn")
	}
	if on() {
		Draws++
		if Bounded {
			return mc.Cur.Dev("rand", n)
		}
		return mc.Cur.Any("rand", n)
	}
	return rand.Intn(n)
}

func Int31n(n int32) int32 {
	if n <= 0 {
		panic("invalid argument to Int31n")
	}
	return int32(Intn(int(n)))
}

func Int63n(n int64) int64 {
	if n <= 0 {
		panic("invalid argument to Int63n")
	}
	if on() && n <= 1<<20 {
		return int64(Intn(int(n)))
	}
	return rand.Int63n(n)
}

func Perm(n int) []int {
	if !on() {
		return rand.Perm(n)
	}
	m := make([]int, n)
	for i := 0; i < n; i++ {
		j := Intn(i + 1)
		m[i] = m[j]
		m[j] = i
	}
	return m
}

func Shuffle(n int, swap func(i, j int)) {
	if !on() {
		rand.Shuffle(n, swap)
		return
	}
	for i := n - 1; i > 0; i-- {
		swap(i, Intn(i+1))
	}
}

// The functions below have ranges too large to enumerate; they stay random
// (a harness that depends on them reports the clause as not decided).
func Int() int                   { return rand.Int() }
func Int31() int32               { return rand.Int31() }
func Int63() int64               { return rand.Int63() }
func Uint32() uint32             { return rand.Uint32() }
func Uint64() uint64             { return rand.Uint64() }
func Float32() float32           { return rand.Float32() }
func Float64() float64           { return rand.Float64() }
func NormFloat64() float64       { return rand.NormFloat64() }
func ExpFloat64() float64        { return rand.ExpFloat64() }
func Read(p []byte) (int, error) { return rand.Read(p) }
