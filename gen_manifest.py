#!/usr/bin/env python3
"""Writes /verif/MANIFEST.json from the table below (kept in one place so the
manifest stays consistent with what is built)."""
import json

# id -> (technique, level text, level note, design ref)
CHECKS = {
 "C12": ("bounded exhaustive enumeration of input strings on the real function against a brute-force reference",
         "Every string over alphabets of size 2, 3, 4 (and a non-UTF-8 byte alphabet) up to the stated lengths is fed to the real RotateSequence and compared with the minimum over all rotations computed by direct comparison; periodic, near-periodic (every single-letter change at every position) and Fibonacci families are enumerated completely up to the stated sizes against an independent linear-time oracle that is itself checked against brute force. A coverage statement for the bounded space, not a sample.",
         "Go string comparison is byte-wise order; inputs longer than the bounds are not covered.", "§5 C12"),
}

CHECKS.update({
 "C04": ("bounded exhaustive enumeration: complete hash tables of all short sequences, every rotation / strand / case / spelling variant looked up and compared",
         "The real Hash is evaluated on every ACGT string up to the stated length (and every IUPAC string up to a shorter length) under all four topology/strandedness combinations and both nucleic-acid types; every rotation offset, the reverse complement (independent complement table), every case mask and the U/T respelling of every string are compared inside the complete table. The bounded space is covered completely.",
         "Oracle complement table; U under DNA and Z are outside the quantifier; longer sequences are not covered.", "§5 C04"),
 "C05": ("bounded exhaustive enumeration: partition of all short inputs by hash compared with the brute-force orbit partition; value recomputed independently",
         "For every ACGT string up to the stated length, every IUPAC string and every protein string up to shorter lengths, under all flag combinations, the real hash must equal v1_<tag>_<BLAKE3 of the brute-force canonical representative>, and the partition of inputs by hash must coincide with the partition by brute-force canonical form (both merging and splitting are detected); every printable non-alphabet byte at every position, bad type strings and double-stranded proteins must be rejected.",
         "BLAKE3 library trusted (same library as poly); non-ASCII letters not enumerated.", "§5 C05"),
 "C06": ("complete enumeration of 25 tables x 64 codons plus all short DNA strings against an independently transcribed NCBI reference",
         "All 25 table ids x all 64 codons are compared with NCBI's codes written as differences from the standard code; start/stop sets compared as sets; every 2-codon string, every trailing partial codon, every case mask and every codon-boundary split of all 3-codon strings is translated by the real Translate and compared with the reference translation. The codon-assignment clause is covered completely; the structural clauses within the stated lengths.",
         "Oracle's transcription of NCBI gc.prt; DNA strings longer than 3 codons not covered (translation is codon-local).", "§5 C06"),
 "C11": ("bounded exhaustive enumeration of IUPAC strings against set-semantics reference",
         "Every string over the 15 upper-case IUPAC codes up to the stated length and over the 30 mixed-case codes up to a shorter length is fed to the real ReverseComplement/Complement/Reverse/IsPalindromic/AllVariantsIUPAC; results are compared with an oracle in which codes are base sets and complements are derived by set complementation; every split point is checked for the anti-homomorphism law; variant lists are compared as multisets with the Cartesian product.",
         "The 15-entry code-to-set table of the oracle.", "§5 C11"),
 "C19": ("bounded exhaustive enumeration of all short oligos on a full concentration grid against an independent nearest-neighbour reference",
         "Every ACGT sequence of length 2..7 (8 thorough), all case masks for short ones, on the full 5x4x4 grid of oligo/sodium/magnesium concentrations: dH, dS and Tm of the real SantaLucia are compared (1e-6) with an independently held 10-stack table (self-validated against the published dG37 column), enthalpy must not vary with concentration, Tm must strictly increase between all grid neighbours inside the duplex-forming regime; MeltingTemp and MarmurDoty compared with their definitions.",
         "Oracle parameter table; grid points only (no off-grid concentrations); 3'-terminal A/T convention as documented by the function.", "§5 C19"),
})

CHECKS.update({
 "C09": ("stateless model checking of the real goroutines under a controlled scheduler (all interleavings / preemption-bounded, visited-state pruning) plus bounded exhaustive enumeration of assembly designs",
         "CircularLigate/GoldenGate are built from the current tree with every go statement, channel operation, close and WaitGroup call routed through a cooperative scheduler; for small pools ALL interleavings are executed (no preemption bound) and for larger ones all schedules up to a stated preemption bound, with visited-state pruning; every execution's construct set is compared with a brute-force simple-cycle ring enumerator, and deadlock, panic (send on closed channel), leaked tasks and horizon overrun (non-termination) are detected on the schedule where they occur. Separately every design with up to J junctions, every orientation mask, every input order (small f) and decoys are run on the default schedule.",
         "Scheduling points at channel/WaitGroup/spawn operations only (a free-running -race pass is the complement); bounds as reported in evidence.bounds.", "§5 C09"),
})

CHECKS.update({
 "C10": ("bounded exhaustive enumeration of site layouts x every rotation / opening offset x letter case against a modular-index cut-geometry model",
         "Rings of 0..3 (4 thorough) recognition sites in every orientation pattern and gap pattern are laid out from site-free filler (verified by scanning); each ring is digested by the real CutWithEnzyme/CutWithEnzymeByName at EVERY rotation as a circular part in upper, lower and mixed case, and at every opening offset as a linear part, for built-in and custom enzymes; the fragment multiset must equal the one computed by an independent modular-index model, which also makes it rotation independent.",
         "Layout restrictions of the quantifier; plasmids up to ~300 bases; palindromic enzymes not generated.", "§5 C10"),
})

CHECKS.update({
 "C13": ("bounded exhaustive enumeration of record lists x deviation-bounded layouts, plus stateless model checking of the streaming producer against a consumer task (all interleavings per channel capacity)",
         "Every record list up to the stated length over names that look like headers/comments and sequences from empty to beyond a 64 KiB line is written by an independent writer under every combination of at most 2 (3 thorough) layout deviations (wrap width, blank lines, ';' comments, CRLF, missing final newline, gzip, reader chunking, Build text) and parsed by the real Parse; every pair of read boundaries of small files is enumerated; ParseConcurrent is run under the controlled scheduler with a consumer task for capacities 0,1,2,n,1000 and ALL interleavings are executed, checking records, order, single close, no deadlock.",
         "gzip/bufio trusted; channel-operation granularity; lists longer than 3 records and names with leading/trailing blanks not generated.", "§5 C13"),
})

CHECKS.update({
 "C20": ("stateless model checking of the streaming parser against consumer tasks under a controlled scheduler, for every truncation/corruption point (fault enumeration x all interleavings)",
         "Documents with 0..2 (3 thorough) entries are fed to the real Parse intact, truncated at EVERY byte offset, with one byte replaced by '<' or deleted at every offset, and as truncated gzip streams; for each stream, the documented consumer (entries to closure, then errors) and a two-task concurrent consumer are run for channel capacities {0,1,100} and ALL interleavings of parser and consumers are executed with visited-state pruning. Oracle: an independent encoding/xml pass decides well-formedness and how many entries are complete before the damage; delivered entries, order, field contents, at-least-one error, both channels closed, no deadlock / leak / horizon overrun.",
         "encoding/xml, gzip trusted; channel-operation granularity; a partial entry after the complete ones is tolerated.", "§5 C20"),
})

CHECKS.update({
 "C07": ("exhaustive enumeration of every answer of the random source (environment-answer exploration of the real Optimize) over enumerated tables and proteins",
         "math/rand is replaced at build time (overlay) in transform/codon, random and weightedrand by a source whose every draw is an explorer choice point; Optimize is then executed under EVERY answer of every draw for all 25 default tables x every letter, for tables re-weighted with every count vector over {0,1,2,3,9,10,20} on amino acids with 2,3,4 (6 thorough) synonyms, for all proteins up to length 2 (3) and for every output random.ProteinSequence can produce at small lengths. Round trip, three bases per residue and the >10% threshold are checked on every execution; proportionality is an exact count (#answers yielding a codon == its weight), unencodable residues must give an error, never a panic.",
         "Uniformity of math/rand.Intn trusted; proteins longer than 3 residues under full answer enumeration not covered.", "§5 C07"),
 "C08": ("explicit-state breadth-first search over operation histories of the real package with canonical state hashing, plus preemption-bounded schedule exploration at statement granularity, plus exhaustive input enumeration for counting",
         "(1) OptimizeTable on private copies for every ACGT string up to length 6 (8), all case masks and non-ACGT letters, compared with an independent in-frame counter. (2) Breadth-first search over histories of get/reweight/add/compromise/json on the real package (globals reset by generated code and the history replayed for every state), states deduplicated by a canonical key of values, aliasing classes and model knowledge; after EVERY step the returned table, every other live table and a fresh default of each id are compared with a value-semantics model; depth 4 (6). (3) Two and three tasks re-weighting tables of different ids with a scheduling point before every statement of the codon package, all schedules up to 2 (3) preemptions.",
         "Receiver mutation by OptimizeTable is documented and not judged; sequentially consistent statement-level interleaving; one open known finding (GetCodonTable shares storage), see known_findings.json.", "§5 C08"),
})

CHECKS.update({
 "C18": ("bounded exhaustive enumeration of pairs of re-weighted tables x cut-offs against the statement's formula; Optimize on the compromise under every answer of the random source",
         "The computation is per amino acid, so for amino acids with 2, 3, 4 (6 thorough) synonyms ALL ordered pairs of count vectors over small value sets are realised as tables (OptimizeTable on synthetic coding sequences), over genetic codes 1, 2, 11 (all 25 thorough); AddCodonTable must give the sum for all 64 codons; CompromiseCodonTable is evaluated at cut-offs {-1,-1e-9,-5e-5,0,every realised share and +-1e-6,0.1,0.5,1,1+1e-9,1.00005,2}: error iff outside [0,1], per-codon rule within +-1, symmetry, assignment and start/stop codons preserved; Optimize on compromise tables is run under every answer of the draw and must never emit a codon below the cut-off in either table.",
         "Shares within 1e-4 of the cut-off accepted either way; value sets bounded as listed in evidence.bounds.", "§5 C18"),
})

CHECKS.update({
 "C17": ("complete enumeration of orders for the sequence; bounded exhaustive enumeration of (order, length, ban set, filter subset) for barcodes",
         "NucleobaseDeBruijnSequence is checked for every order 1..8 (11 thorough) with a bitset (length and every word exactly once). CreateBarcodes/CreateBarcodesWithBannedSequences are called for orders 2,3 (4), lengths n..n+4, 20, 60, with ALL ban sets of size 0, 1, 2 over ATGC strings of length 2..3 (both orders of each pair; all triples of 2-letter bans thorough) and all 16 subsets of four filter predicates; every barcode must be a substring of the validated sequence of the requested length, no n-letter word may occur in two barcodes, no barcode may contain a ban or its reverse complement, every filter must accept every barcode.",
         "Maximality of the list not checked; ban strings longer than 3 only in a few fixed thorough cases.", "§5 C17"),
})

CHECKS.update({
 "C16": ("deviation-bounded exhaustive enumeration of listings laid out by an independent writer",
         "Listings with 0..3 records (plus a 60/300-record listing) are written by an independent format-31 writer; every combination of at most 2 (3 thorough) deviations from the default listing is generated: header prose (none, the real header, prose with angle-bracket field names and example supplier lines), supplier-table indent (16 blanks as distributed, tabs), blank lines, final newline, each field empty or filled, 0/1/3 isoschizomers, 0/1/3/15 supplier letters including the table's first letter, extra reference lines. The real Parse must return one entry per record with every field verbatim and every supplier letter decoded through the listing's own table; Export must unmarshal to the same map; Read via a file equals Parse.",
         "Field text never contains <1>..<8>; nil and empty lists not distinguished.", "§5 C16"),
})

CHECKS.update({
 "C14": ("complete enumeration of sequence lengths over two periods of the line width x deviation-bounded record shapes and layouts, against the abstract record",
         "For EVERY sequence length 1..141 (each residue class modulo the 70-column width twice) plus 210 and 5000, records with at most 2 (3 thorough) deviations from the default (region start, 0..3 features, coordinates 1..1 / len..len / interior, strand, phase, score, 1..6 attributes with blanks, %2C and commas, text from gff.Build or from an independent writer at width 70 / 60 / unwrapped, final newline, ### line) are written and parsed by the real Parse; region, full sequence, every feature field, the 1-based/0-based conversion and Feature.GetSequence() == bases start..end of the file's sequence are compared with the abstract record.",
         "Field text free of tab/newline/;/=; features have at least one attribute.", "§5 C14"),
})

CHECKS.update({
 "C02": ("bounded exhaustive enumeration of location expression trees through three seams against a strict INSDC reader/evaluator",
         "ALL expression trees with at most 3 operators and at most 2 leaves (3 leaves thorough) over the complete leaf alphabet of a 6-base parent (21 spans + 6 single bases), every single-span partial marking, plus 3- and 4-leaf trees, joins of 4..6 operands and depth-4 nestings over leaf subsets, on two parents (and a 2000-base parent), each (a) as text through the real genbank.Parse of a minimal record and Feature.GetSequence, (b) as a structure through AddFeature/GetSequence, (c) written by BuildLocationString and read back by a strict independent INSDC parser: same bases, same partial ends.",
         "Oracle grammar/evaluator; arities >= 4 only over reduced leaf sets; one open known finding (a..b> writer form).", "§5 C02"),
})

CHECKS.update({
 "C01": ("exhaustive enumeration of feature lists x deviation-bounded enumeration of every other record dimension, files laid out by an independent flat-file writer and compared field by field with the abstract record",
         "An independent GenBank writer (keyword columns, continuation lines, feature-table columns, blank-wrapped values, comma-wrapped locations, mid-word wrapped /translation, numbered ORIGIN blocks, //) lays out abstract records. EVERY feature list up to length 2 (3 thorough) over 13 feature shapes (no qualifiers, '/' and '=' in values, values wrapping onto 1 and 2 lines, 2- and 3-line locations, complement, value-less and unquoted qualifiers, long /translation, ...) is combined with EVERY assignment of the other dimensions with at most 2 deviations (11 sequence lengths, locus name, molecule type, topology, division/date, DEFINITION/KEYWORDS/ORGANISM shapes, 0/1/2/5 references in 4 styles, COMMENT/DBLINK, 1/2/3/5 records per file, Parse/ParseMulti/ParseFlat, final newline). The real parser's result must equal the abstract record in every stated field, k records must come back in order and each equal to parsing that record alone; Read/ReadMulti/ReadFlat/ReadFlatGz on a 40-feature and a long record.",
         "Generator asserts the quantifier's side conditions; words never longer than a line; deviations beyond 2 at once not covered.", "§5 C01"),
})

CHECKS.update({
 "C03": ("exhaustive enumeration of map-iteration orders (environment-answer exploration of the real Build) over deviation-bounded assembled records and over the parser's image; independent column-based reader as layout oracle",
         "range-over-map inside io/genbank is rewritten at build time so that the iteration order of every map is an explorer choice; Build is executed under EVERY order (all n! for up to 4 keys, rotations/reversals beyond) for assembled records with at most 2 (3 thorough) deviations (sequence length, topology, metadata of 100/2000 characters, 0/1/2/5 references with/without REMARK, 0..3 extra keyword blocks, 0..3 features x 7 location shapes x cached location text x 0/1/2/3/8 qualifiers) and for every record the parser returns over the generated C01 file set (feature lists <= 2, 1 deviation). All outputs of one record must be byte-identical; Parse(Build(x)) must equal x in sequence, locus, metadata, references incl. REMARK, other keywords and features (key, location tree, qualifier map); an independent column-based flat-file reader (self-checked against the independent writer) must recover the same record from the text.",
         "Location trees compared up to partial flags of internal nodes; a..b> locations are the recorded C02 finding and skipped by the layout clause; LOCUS read token-wise.", "§5 C03"),
})

CHECKS.update({
 "C15": ("deviation-bounded exhaustive enumeration of annotated sequences and of parser outputs through the real JSON write/read path, with a one-step history (each value re-checked after the next Parse)",
         "Assembled annotated sequences with at most 2 (3 thorough) deviations over 10 text kinds (accents, CJK, emoji, quotes, backslash, <&>, control characters, U+2028, empty) in 7 string fields, absent / empty / populated references, extra keywords, attributes and feature lists, 10 location shapes (to depth 4, partial flags, single-child wrapper nodes, empty sub-location lists), cached location text, topology; plus every record the GenBank parser returns over generated files (feature lists <= 2 over 13 shapes) and GFF parser outputs over lengths around the line width. Each value is marshalled and read by polyjson.Parse (and Write/Read through files): deep equality in every field (absent == empty), every feature re-linked to a parent holding the sequence and reporting the same GetSequence() as before, the previously read value re-checked after the next Parse, and Build(ParseJSON(Marshal(Parse(text)))) byte-identical to Build(Parse(text)) for GenBank and GFF.",
         "encoding/json trusted; valid UTF-8 only.", "§5 C15"),
})

NOT_YET = {}

props = [json.loads(l) for l in open('/verif/properties.jsonl')]
checks = []
na = []
for p in props:
    i = p['id']
    if i in CHECKS:
        tech, text, note, ref = CHECKS[i]
        checks.append({
            "property_id": i,
            "quick_cmd": f"./bin/check {i} quick",
            "thorough_cmd": f"./bin/check {i} thorough",
            "evidence_file": f"/verif/evidence/{i}.json",
            "replay_cmd_template": f"./bin/check {i} quick --replay {{path}}",
            "engine": "mc",
            "level_claimed": {"category": "model_checking", "text": text, "design_ref": ref},
            "level_note": note,
            "technique": tech,
        })
    else:
        na.append({"property_id": i, "reason": NOT_YET.get(i, "check not built yet in this revision of /verif (work in progress); the design in DESIGN.md §5 applies")})

manifest = {
 "version": 1,
 "setup_cmd": "./setup.sh",
 "hooks": {
  "guard": "verif (nominal): instrumentation is generated at build time from the current /repo tree and applied with `go build -overlay`; nothing is committed to /repo",
  "enable": "bin/instr rewrites the packages a property needs (scheduler points, math/rand, map iteration order, globals reset) into a temp dir; harness built with `go build -overlay <tmp>/overlay.json -tags cNN ./cmd/verifbin`",
  "baseline_off_cmd": "cd /repo && go test -vet=off -count=1 ./...",
  "source_commits": [],
  "add_only": True
 },
 "engines": [
  {"name": "mc", "path": "/verif/mc", "serves_properties": [c["property_id"] for c in checks],
   "kind_free_text": "hand-written stateless explorer: choice tree walked depth-first by replay (input-shape deviations, environment answers, schedules under a cooperative scheduler) with deviation/preemption bounding and visited-state pruning; plus complete enumeration of small input spaces against reference models"}
 ],
 "checks": checks,
 "not_applicable": na,
 "notes": "All checks run the real code built from /repo's current working tree. See DESIGN.md."
}
json.dump(manifest, open('/verif/MANIFEST.json', 'w'), indent=1)
print("wrote MANIFEST.json:", len(checks), "checks,", len(na), "not_applicable")
