#!/usr/bin/env python3
"""Writes /verif/MANIFEST.json from the table below (kept in one place so the
manifest stays consistent with what is built)."""
import json

# id -> (technique, level text, level note, design ref)
CHECKS = {
 "C12": ("bounded exhaustive enumeration of input strings on the real function against a brute-force reference",
         "Every string over alphabets of size 2, 3, 4 (and a non-UTF-8 byte alphabet) up to the stated lengths is fed to the real RotateSequence and compared with the minimum over all rotations computed by direct comparison; periodic, near-periodic (every single-letter change at every position) and Fibonacci families are enumerated completely up to the stated sizes against an independent linear-time oracle that is itself checked against brute force. A coverage statement for the bounded space, not a sample.",
         "Go string comparison is byte-wise order; inputs longer than the bounds are not covered.", "§5 C12"),
}

NOT_YET = {}

props = [json.loads(l) for l in open('/verif/properties.jsonl')]
checks = []
na = []
for p in props:
    i = p['id']
    if i in CHECKS:
        tech, text, note, ref = CHECKS[i]
        checks.append({
            "property_id": i,
            "quick_cmd": f"./bin/check {i} quick",
            "thorough_cmd": f"./bin/check {i} thorough",
            "evidence_file": f"/verif/evidence/{i}.json",
            "replay_cmd_template": f"./bin/check {i} quick --replay {{path}}",
            "engine": "mc",
            "level_claimed": {"category": "model_checking", "text": text, "design_ref": ref},
            "level_note": note,
            "technique": tech,
        })
    else:
        na.append({"property_id": i, "reason": NOT_YET.get(i, "check not built yet in this revision of /verif (work in progress); the design in DESIGN.md §5 applies")})

manifest = {
 "version": 1,
 "setup_cmd": "./setup.sh",
 "hooks": {
  "guard": "verif (nominal): instrumentation is generated at build time from the current /repo tree and applied with `go build -overlay`; nothing is committed to /repo",
  "enable": "bin/instr rewrites the packages a property needs (scheduler points, math/rand, map iteration order, globals reset) into a temp dir; harness built with `go build -overlay <tmp>/overlay.json -tags cNN ./cmd/verifbin`",
  "baseline_off_cmd": "cd /repo && go test -vet=off -count=1 ./...",
  "source_commits": [],
  "add_only": True
 },
 "engines": [
  {"name": "mc", "path": "/verif/mc", "serves_properties": [c["property_id"] for c in checks],
   "kind_free_text": "hand-written stateless explorer: choice tree walked depth-first by replay (input-shape deviations, environment answers, schedules under a cooperative scheduler) with deviation/preemption bounding and visited-state pruning; plus complete enumeration of small input spaces against reference models"}
 ],
 "checks": checks,
 "not_applicable": na,
 "notes": "All checks run the real code built from /repo's current working tree. See DESIGN.md."
}
json.dump(manifest, open('/verif/MANIFEST.json', 'w'), indent=1)
print("wrote MANIFEST.json:", len(checks), "checks,", len(na), "not_applicable")
