// Package mc is the explorer: a choice tree walked depth-first by replay, with
// deviation bounding and optional visited-state pruning, plus the recorder that
// turns what was explored into evidence.
//
// A harness body is a deterministic function of the choices it asks for. Every
// source of variation (input shape, environment answer, schedule) is a call to
// Any or Dev on the current context, so that the explorer can enumerate all of
// them.
package mc

import (
	"fmt"
	"strings"
)

// Kind of a choice point.
const (
	KAny   = 0 // free choice: every alternative explored, no cost
	KDev   = 1 // alternative 0 is the default; others cost 1 deviation
	KSched = 2 // scheduler decision; preemptive alternatives cost 1 preemption
)

// Point is one recorded choice point of an execution.
type Point struct {
	Label  string
	N      int   // number of alternatives
	Taken  int   // alternative taken
	Kind   int   // KAny / KDev / KSched
	Cost   []int // cost of each alternative (len N); nil = all free
	Key    uint64
	HasKey bool // state key valid at this point (for pruning)
}

// Ctx is the context of one execution.
type Ctx struct {
	prefix []int
	Points []Point
	// spent budget so far
	Devs     int
	Preempts int
	// Cut is set when the execution reached an already-visited state and was
	// abandoned; its outcome must not be judged.
	Cut   bool
	visit func(key uint64, devs, pre int) bool
}

// Cur is the context of the execution in progress in this process. Shims
// (vrand, vmap, sched) use it; harness bodies get it as an argument too.
var Cur *Ctx

// ErrDiverge is panicked when a replayed prefix does not fit the execution.
type ErrDiverge struct{ Msg string }

func (e ErrDiverge) Error() string { return "replay divergence: " + e.Msg }

func (c *Ctx) choose(label string, n int, kind int, cost []int, key uint64, hasKey bool) int {
	if n <= 0 {
		panic(fmt.Sprintf("mc: choice %q with %d alternatives", label, n))
	}
	i := len(c.Points)
	taken := 0
	if i < len(c.prefix) {
		taken = c.prefix[i]
		if taken >= n {
			panic(ErrDiverge{fmt.Sprintf("point %d (%s): prefix asks for alternative %d of %d", i, label, taken, n)})
		}
	}
	c.Points = append(c.Points, Point{Label: label, N: n, Taken: taken, Kind: kind, Cost: cost, Key: key, HasKey: hasKey})
	if cost != nil && cost[taken] > 0 {
		if kind == KSched {
			c.Preempts += cost[taken]
		} else {
			c.Devs += cost[taken]
		}
	}
	return taken
}

// Any asks for a free choice among n alternatives.
func (c *Ctx) Any(label string, n int) int {
	if n == 1 {
		return 0
	}
	return c.choose(label, n, KAny, nil, 0, false)
}

// Dev asks for a choice whose alternative 0 is the default; any other costs
// one deviation.
func (c *Ctx) Dev(label string, n int) int {
	if n == 1 {
		return 0
	}
	cost := make([]int, n)
	for i := 1; i < n; i++ {
		cost[i] = 1
	}
	return c.choose(label, n, KDev, cost, 0, false)
}

// Sched is used by the scheduler: enabled tasks in canonical order, cost[i]=1
// for a preemptive switch. key identifies the global state before the choice.
// It returns -1 when the state was already explored with at least the same
// remaining budget: the caller must abandon the execution (Cut is set).
func (c *Ctx) Sched(label string, n int, cost []int, key uint64) int {
	if len(c.Points) >= len(c.prefix) && c.visit != nil {
		if !c.visit(key, c.Devs, c.Preempts) {
			c.Cut = true
			return -1
		}
	}
	return c.choose(label, n, KSched, cost, key, true)
}

// Pruning reports whether state keys are used (visited-state pruning is on).
func (c *Ctx) Pruning() bool { return c.visit != nil }

// Choices returns the vector of alternatives taken so far.
func (c *Ctx) Choices() []int {
	out := make([]int, len(c.Points))
	for i, p := range c.Points {
		out[i] = p.Taken
	}
	return out
}

// Describe renders the non-default choices for humans.
func (c *Ctx) Describe() string {
	var b strings.Builder
	for _, p := range c.Points {
		if p.Kind == KDev && p.Taken == 0 {
			continue
		}
		if p.Kind == KSched {
			continue
		}
		fmt.Fprintf(&b, "%s=%d ", p.Label, p.Taken)
	}
	return strings.TrimSpace(b.String())
}

// Options of one exploration.
type Options struct {
	DevBound     int         // max deviations (KDev); <0 = unbounded
	PreemptBound int         // max preemptions (KSched); <0 = unbounded
	Prune        bool        // visited-state pruning on points that carry a key
	Root         []int       // fixed choices at the first points: only the subtree below them is explored
	MaxExecs     int         // cap on executions (0 = none); hitting it clears Exhaustive
	Deadline     func() bool // returns true when time is up
}

// Stats of one exploration.
type Stats struct {
	Execs       int
	Transitions int // choice edges executed (new edges only, not replayed prefix)
	States      int // distinct state keys seen at keyed points
	MaxDepth    int
	Pruned      int
	Capped      bool
	Exhaustive  bool
}

// Explore runs body for every combination of choices within the bounds.
// body must be deterministic given the choices. It returns false to stop the
// whole exploration early (e.g. after enough violations).
func Explore(opt Options, body func(c *Ctx) bool) Stats {
	var st Stats
	st.Exhaustive = true
	// visited: state key -> best (devsLeft, preLeft) seen. With two budgets a
	// state is cut only if both remaining budgets are <= a previous visit's.
	type budget struct{ d, p int }
	visited := map[uint64][]budget{}
	dominated := func(k uint64, b budget) bool {
		for _, o := range visited[k] {
			if o.d >= b.d && o.p >= b.p {
				return true
			}
		}
		return false
	}
	left := func(bound, used int) int {
		if bound < 0 {
			return 1 << 30
		}
		return bound - used
	}

	var rec func(prefix []int) bool
	rec = func(prefix []int) bool {
		if opt.MaxExecs > 0 && st.Execs >= opt.MaxExecs {
			st.Capped, st.Exhaustive = true, false
			return false
		}
		if opt.Deadline != nil && opt.Deadline() {
			st.Capped, st.Exhaustive = true, false
			return false
		}
		c := &Ctx{prefix: prefix}
		if opt.Prune {
			c.visit = func(k uint64, d, p int) bool {
				b := budget{left(opt.DevBound, d), left(opt.PreemptBound, p)}
				if dominated(k, b) {
					st.Pruned++
					return false
				}
				if len(visited[k]) == 0 {
					st.States++
				}
				visited[k] = append(visited[k], b)
				return true
			}
		}
		Cur = c
		cont := body(c)
		Cur = nil
		st.Execs++
		if len(c.Points) > st.MaxDepth {
			st.MaxDepth = len(c.Points)
		}
		if len(c.Points) < len(prefix) {
			panic(ErrDiverge{fmt.Sprintf("execution ended after %d points, prefix has %d", len(c.Points), len(prefix))})
		}
		st.Transitions += len(c.Points) - len(prefix)
		if !cont {
			return false
		}
		// Branch on every untried alternative of the new part of the path.
		devs, pre := 0, 0
		for i := 0; i < len(c.Points); i++ {
			p := c.Points[i]
			if i >= len(prefix) {
				for alt := 1; alt < p.N; alt++ {
					cd, cp := 0, 0
					if p.Cost != nil {
						if p.Kind == KSched {
							cp = p.Cost[alt]
						} else {
							cd = p.Cost[alt]
						}
					}
					if opt.DevBound >= 0 && devs+cd > opt.DevBound {
						continue
					}
					if opt.PreemptBound >= 0 && pre+cp > opt.PreemptBound {
						continue
					}
					np := make([]int, i+1)
					for j := 0; j < i; j++ {
						np[j] = c.Points[j].Taken
					}
					np[i] = alt
					if !rec(np) {
						return false
					}
				}
			}
			if p.Cost != nil {
				if p.Kind == KSched {
					pre += p.Cost[p.Taken]
				} else {
					devs += p.Cost[p.Taken]
				}
			}
		}
		return true
	}
	rec(append([]int(nil), opt.Root...))
	return st
}
