package mc

import (
	"encoding/json"
	"fmt"
	"hash/fnv"
	"sort"
	"strings"
	"sync"
	"time"
)

// Failure is one violated clause on one explored case.
type Failure struct {
	Clause   string   `json:"clause"`         // which clause of the property
	Unit     string   `json:"unit"`           // exploration unit that produced it
	Case     string   `json:"case"`           // canonical, human-readable case
	Tags     []string `json:"tags,omitempty"` // features of the case used to attribute known findings
	Choices  []int    `json:"choices,omitempty"`
	Expected string   `json:"expected"`
	Got      string   `json:"got"`
}

func (f Failure) Sig() string { return f.Clause + "|" + f.Unit + "|" + f.Case }

// Recorder accumulates what one unit (or one worker) covered.
type Recorder struct {
	mu            sync.Mutex
	Unit          string
	Evaluations   int64
	States        int64
	Transitions   int64
	Traces        int64
	Nontrivial    int64
	Skipped       int64
	outcomes      map[uint64]struct{}
	stateSet      map[uint64]struct{}
	Samples       []string
	Failures      []Failure
	FailCount     int64
	Caps          []string
	Bounds        map[string]string
	NotExhaustive bool
	MaxFailures   int
	deadline      time.Time
	firstFail     time.Time
	perSig        map[string]int
}

// Enough reports that the unit has found enough failures to stop exploring:
// five of them, or ten seconds spent since the first one.
func (r *Recorder) Enough() bool {
	r.mu.Lock()
	defer r.mu.Unlock()
	return r.FailCount >= 5 || (!r.firstFail.IsZero() && time.Since(r.firstFail) > 10*time.Second)
}

func NewRecorder(unit string) *Recorder {
	return &Recorder{Unit: unit, outcomes: map[uint64]struct{}{}, stateSet: map[uint64]struct{}{}, Bounds: map[string]string{}, MaxFailures: 40}
}

func H(s string) uint64 {
	h := fnv.New64a()
	h.Write([]byte(s))
	return h.Sum64()
}

// Eval counts n evaluated cases (each an execution of the implementation).
func (r *Recorder) Eval(n int64) {
	r.mu.Lock()
	r.Evaluations += n
	r.Traces += n
	r.mu.Unlock()
}

// AddStates / AddTransitions add counted amounts (for enumerations whose
// states are distinct by construction).
func (r *Recorder) AddStates(n int64)      { r.mu.Lock(); r.States += n; r.mu.Unlock() }
func (r *Recorder) AddTransitions(n int64) { r.mu.Lock(); r.Transitions += n; r.mu.Unlock() }
func (r *Recorder) AddNontrivial(n int64)  { r.mu.Lock(); r.Nontrivial += n; r.mu.Unlock() }
func (r *Recorder) Skip(n int64)           { r.mu.Lock(); r.Skipped += n; r.mu.Unlock() }

// State records a state key; distinct keys are counted.
func (r *Recorder) State(key string) bool {
	h := H(key)
	r.mu.Lock()
	_, seen := r.stateSet[h]
	if !seen {
		r.stateSet[h] = struct{}{}
		r.States++
	}
	r.mu.Unlock()
	return !seen
}

// Outcome records an observation; distinct observations are counted.
func (r *Recorder) Outcome(obs string) {
	h := H(obs)
	r.mu.Lock()
	r.outcomes[h] = struct{}{}
	r.mu.Unlock()
}

func (r *Recorder) OutcomeH(h uint64) {
	r.mu.Lock()
	r.outcomes[h] = struct{}{}
	r.mu.Unlock()
}

// Sample keeps the first few cases written out.
func (r *Recorder) Sample(s string) {
	r.mu.Lock()
	if len(r.Samples) < 4 {
		if len(s) > 600 {
			s = s[:600] + "…"
		}
		r.Samples = append(r.Samples, s)
	}
	r.mu.Unlock()
}

// Fail records a violation.
func (r *Recorder) Fail(f Failure) {
	r.mu.Lock()
	defer r.mu.Unlock()
	r.FailCount++
	if r.firstFail.IsZero() {
		r.firstFail = time.Now()
	}
	if f.Unit == "" {
		f.Unit = r.Unit
	}
	if len(f.Expected) > 2000 {
		f.Expected = f.Expected[:2000] + "…"
	}
	if len(f.Got) > 2000 {
		f.Got = f.Got[:2000] + "…"
	}
	// keep a few failures per (clause, tags) signature, so that many cases of one
	// defect cannot crowd out a different one
	sig := f.Clause + "|" + strings.Join(f.Tags, ",")
	if r.perSig == nil {
		r.perSig = map[string]int{}
	}
	if r.perSig[sig] < 4 && len(r.Failures) < r.MaxFailures {
		r.perSig[sig]++
		r.Failures = append(r.Failures, f)
	}
}

func (r *Recorder) Failf(clause, cas string, tags []string, exp, got string) {
	r.Fail(Failure{Clause: clause, Case: cas, Tags: tags, Expected: exp, Got: got})
}

func (r *Recorder) Cap(what string) {
	r.mu.Lock()
	r.Caps = append(r.Caps, what)
	r.NotExhaustive = true
	r.mu.Unlock()
}

func (r *Recorder) Bound(k, v string) { r.mu.Lock(); r.Bounds[k] = v; r.mu.Unlock() }

func (r *Recorder) SetDeadline(t time.Time) { r.deadline = t }
func (r *Recorder) TimeUp() bool {
	return !r.deadline.IsZero() && time.Now().After(r.deadline)
}

// AddExplore folds explorer statistics into the recorder.
func (r *Recorder) AddExplore(st Stats, what string) {
	r.mu.Lock()
	r.Evaluations += int64(st.Execs)
	r.Traces += int64(st.Execs)
	r.Transitions += int64(st.Transitions)
	r.States += int64(st.States)
	if !st.Exhaustive {
		r.NotExhaustive = true
		r.Caps = append(r.Caps, what+": capped after "+fmt.Sprint(st.Execs)+" executions")
	}
	r.mu.Unlock()
}

// Partial is what a worker process reports for the units it ran.
type Partial struct {
	Units       []string           `json:"units"`
	Evaluations int64              `json:"evaluations"`
	States      int64              `json:"states"`
	Transitions int64              `json:"transitions"`
	Traces      int64              `json:"traces"`
	Nontrivial  int64              `json:"nontrivial"`
	Skipped     int64              `json:"skipped"`
	Outcomes    int64              `json:"outcomes"`
	Samples     []string           `json:"samples"`
	Failures    []Failure          `json:"failures"`
	FailCount   int64              `json:"fail_count"`
	Caps        []string           `json:"caps"`
	Bounds      map[string]string  `json:"bounds"`
	Exhaustive  bool               `json:"exhaustive"`
	UnitWall    map[string]float64 `json:"unit_wall"`
}

func (r *Recorder) Partial() Partial {
	r.mu.Lock()
	defer r.mu.Unlock()
	return Partial{Units: []string{r.Unit}, Evaluations: r.Evaluations, States: r.States, Transitions: r.Transitions, Traces: r.Traces,
		Nontrivial: r.Nontrivial, Skipped: r.Skipped, Outcomes: int64(len(r.outcomes)), Samples: r.Samples, Failures: r.Failures,
		FailCount: r.FailCount, Caps: r.Caps, Bounds: r.Bounds, Exhaustive: !r.NotExhaustive, UnitWall: map[string]float64{}}
}

// Merge folds b into a.
func (a *Partial) Merge(b Partial) {
	a.Units = append(a.Units, b.Units...)
	a.Evaluations += b.Evaluations
	a.States += b.States
	a.Transitions += b.Transitions
	a.Traces += b.Traces
	a.Nontrivial += b.Nontrivial
	a.Skipped += b.Skipped
	a.Outcomes += b.Outcomes
	for _, s := range b.Samples {
		if len(a.Samples) < 8 {
			a.Samples = append(a.Samples, s)
		}
	}
	a.Failures = append(a.Failures, b.Failures...)
	a.FailCount += b.FailCount
	a.Caps = append(a.Caps, b.Caps...)
	if a.Bounds == nil {
		a.Bounds = map[string]string{}
	}
	for k, v := range b.Bounds {
		a.Bounds[k] = v
	}
	if a.UnitWall == nil {
		a.UnitWall = map[string]float64{}
	}
	for k, v := range b.UnitWall {
		a.UnitWall[k] = v
	}
	a.Exhaustive = a.Exhaustive && b.Exhaustive
}

func (p Partial) JSON() []byte {
	sort.Strings(p.Units)
	b, _ := json.Marshal(p)
	return b
}

// Unit is an independent piece of exploration.
type Unit struct {
	Name string
	Run  func(r *Recorder)
	// Serial units use process-global shims (scheduler, vrand, vmap) and must
	// not run concurrently with another unit in the same process.
	Serial bool
	Weight int // relative cost, for balancing shards (0 = 1)
	// Procs, when non-zero, is the GOMAXPROCS setting the unit runs under (serial units only): the number of
	// processors is an answer of the environment, and code may take another path when it is greater than one.
	Procs int
}

// WithProcs returns, for every unit whose name satisfies match, a copy that runs under GOMAXPROCS=procs.
func WithProcs(us []Unit, procs int, match func(name string) bool) []Unit {
	var out []Unit
	for _, u := range us {
		if u.Serial && match(u.Name) {
			c := u
			c.Name = fmt.Sprintf("%s/procs=%d", u.Name, procs)
			c.Procs = procs
			out = append(out, c)
		}
	}
	return out
}

// Harness is the set of units of one property.
type Harness struct {
	ID     string
	Units  func(tier string) []Unit
	Rule   string   // how cases are enumerated and what makes one non-trivial
	Assume []string // assumptions / trusted base
	// Instr describes the instrumentation the harness needs: package path ->
	// comma-separated modes; informational here, used by the driver.
}

var registry = map[string]*Harness{}

func Register(h *Harness)       { registry[strings.ToUpper(h.ID)] = h }
func Lookup(id string) *Harness { return registry[strings.ToUpper(id)] }
func IDs() []string {
	var out []string
	for k := range registry {
		out = append(out, k)
	}
	sort.Strings(out)
	return out
}
