module verif

go 1.23

require github.com/TimothyStiles/poly v0.0.0

require golang.org/x/tools v0.29.0

require lukechampine.com/blake3 v1.0.0

require (
	github.com/mitchellh/go-wordwrap v1.0.0 // indirect
	github.com/mroth/weightedrand v0.2.1 // indirect
	golang.org/x/mod v0.22.0 // indirect
	golang.org/x/sync v0.10.0 // indirect
)

replace github.com/TimothyStiles/poly => /repo
