#!/bin/sh
# Builds the framework from files on disk only (offline) and warms the build cache.
set -e
cd /verif
export GOFLAGS=-mod=mod GOPROXY=off GOSUMDB=off GOTOOLCHAIN=local GODEBUG=goindex=0
mkdir -p bin evidence replays
go build -o bin/check ./cmd/check
go build -o bin/instr ./instr
# warm the build cache for the harness builds (poly + deps + shims)
for t in c12 c09; do go build -o /dev/null -tags $t ./cmd/verifbin || true; done
# warm the -race build cache for the auxiliary free-running pass
go build -race -tags c09 -o /dev/null ./cmd/racepass || true
echo setup ok
