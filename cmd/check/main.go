// check is the driver: instrument the current /repo tree, build the harness of
// one property against it, run its units on worker processes, merge what they
// covered into evidence and give the verdict.
package main

import (
	"bytes"
	"context"
	"encoding/json"
	"fmt"
	"os"
	"os/exec"
	"path/filepath"
	"regexp"
	"sort"
	"strconv"
	"strings"
	"sync"
	"time"

	"verif/mc"
)

const verifDir = "/verif"

type spec struct {
	// package pattern -> comma separated instrumentation modes
	Instr map[string]string
	// extra build tags
	Tags []string
	// soft time budget per tier for the workers (they stop cleanly, exhaustive:false)
	BudgetQuick, BudgetThorough time.Duration
	Workers                     int
	Procs                       int  // GOMAXPROCS of each worker (default 2; 1 is fastest under the cooperative scheduler)
	Race                        bool // also run the free-running -race pass (cmd/racepass)
	Design                      string
}

var specs = map[string]spec{}

func env() []string {
	e := os.Environ()
	e = append(e, "GOFLAGS=-mod=mod", "GOPROXY=off", "GOSUMDB=off", "GOTOOLCHAIN=local", "GODEBUG=goindex=0")
	return e
}

type unitInfo struct {
	Name   string `json:"name"`
	Serial bool   `json:"serial"`
	Weight int    `json:"weight"`
}

type finding struct {
	Property string   `json:"property"`
	Status   string   `json:"status"` // open | fixed
	Clause   string   `json:"clause"`
	Requires []string `json:"requires,omitempty"` // tags that must all be present on the failing case
	CaseRe   string   `json:"case_regex,omitempty"`
	What     string   `json:"what"`
	Commit   string   `json:"commit,omitempty"`
}

func (f finding) matches(id string, v mc.Failure) bool {
	if f.Status != "open" || !strings.EqualFold(f.Property, id) || f.Clause != v.Clause {
		return false
	}
	tags := map[string]bool{}
	for _, t := range v.Tags {
		tags[t] = true
	}
	for _, t := range f.Requires {
		if !tags[t] {
			return false
		}
	}
	if f.CaseRe != "" {
		re, err := regexp.Compile(f.CaseRe)
		if err != nil || !re.MatchString(v.Case) {
			return false
		}
	}
	return len(f.Requires) > 0 || f.CaseRe != ""
}

func die(code int, format string, a ...any) {
	fmt.Fprintf(os.Stderr, format+"\n", a...)
	os.Exit(code)
}

func main() {
	args := os.Args[1:]
	var id, tier, replay string
	var keep bool
	for i := 0; i < len(args); i++ {
		switch {
		case args[i] == "--replay" && i+1 < len(args):
			replay = args[i+1]
			i++
		case args[i] == "--keep":
			keep = true
		case id == "":
			id = strings.ToUpper(args[i])
		case tier == "":
			tier = args[i]
		}
	}
	if tier == "" {
		tier = os.Getenv("VERIF_TIER")
	}
	if tier == "" {
		tier = "quick"
	}
	if id == "" || (tier != "quick" && tier != "thorough") {
		die(2, "usage: check <id> [quick|thorough] [--replay file]")
	}
	sp := specs[id] // zero value: no instrumentation, default budgets
	seed, _ := strconv.Atoi(os.Getenv("VERIF_SEED"))
	t0 := time.Now()

	work, err := os.MkdirTemp("", "verif-"+id+"-")
	if err != nil {
		die(2, "mkdtemp: %v", err)
	}
	if !keep {
		defer os.RemoveAll(work)
	}
	exit := func(code int) {
		if !keep {
			os.RemoveAll(work)
		}
		os.Exit(code)
	}

	// 1. instrument the current working tree of /repo
	var notes []string
	overlay := ""
	if len(sp.Instr) > 0 {
		var parts []string
		for k, v := range sp.Instr {
			parts = append(parts, k+"="+v)
		}
		sort.Strings(parts)
		cmd := exec.Command(filepath.Join(verifDir, "bin", "instr"), "-out", filepath.Join(work, "ov"), "-spec", strings.Join(parts, ";"))
		cmd.Dir = verifDir
		cmd.Env = env()
		out, err := cmd.CombinedOutput()
		if err != nil {
			fmt.Fprintf(os.Stderr, "instrumentation failed: %v\n%s\n", err, out)
			die(2, "cannot instrument /repo for %s", id)
		}
		overlay = filepath.Join(work, "ov", "overlay.json")
		notes = append(notes, strings.TrimSpace(string(out)))
	}
	// 2. build the harness against it
	bin := filepath.Join(work, "verifbin")
	bargs := []string{"build", "-o", bin, "-tags", strings.Join(append([]string{strings.ToLower(id)}, sp.Tags...), ",")}
	if overlay != "" {
		bargs = append(bargs, "-overlay", overlay)
	}
	bargs = append(bargs, "./cmd/verifbin")
	cmd := exec.Command("go", bargs...)
	cmd.Dir = verifDir
	cmd.Env = env()
	if out, err := cmd.CombinedOutput(); err != nil {
		fmt.Fprintf(os.Stderr, "build failed: %v\n%s\n", err, out)
		exit(2)
	}
	// 3. list units
	lo, err := exec.Command(bin, "-list", id, tier).Output()
	if err != nil {
		die(2, "list units: %v", err)
	}
	var listing struct {
		Units  []unitInfo `json:"units"`
		Rule   string     `json:"rule"`
		Assume []string   `json:"assume"`
	}
	if err := json.Unmarshal(lo, &listing); err != nil {
		die(2, "list units: %v", err)
	}
	budget := sp.BudgetQuick
	if tier == "thorough" {
		budget = sp.BudgetThorough
	}
	if budget == 0 {
		budget = 10 * time.Minute
		if tier == "thorough" {
			budget = 40 * time.Minute
		}
	}

	// isolate re-runs the units of a worker that died one at a time: the partial results of the units that finish, and a
	// failure (clause no-crash) for each unit whose worker dies again with a fatal error inside the library.
	isolate := func(unitNames []string, tag string, idx int) (mc.Partial, []mc.Failure) {
		var part mc.Partial
		part.Exhaustive = true
		var crashed []mc.Failure
		for k, u := range unitNames {
			outf := filepath.Join(work, fmt.Sprintf("part-iso-%s-%d-%d.json", tag, idx, k))
			ctx, cancel := context.WithTimeout(context.Background(), budget+5*time.Minute)
			c := exec.CommandContext(ctx, "sh", "-c", "ulimit -v 25165824; exec \"$0\" \"$@\"", bin, "-par", "1", "-budget", budget.String(), "-out", outf, "-units", u, id, tier)
			gmp := "2"
			if sp.Procs > 0 {
				gmp = strconv.Itoa(sp.Procs)
			}
			c.Env = append(os.Environ(), "GOMAXPROCS="+gmp)
			var eb bytes.Buffer
			c.Stderr, c.Stdout = &eb, &eb
			err := c.Run()
			cancel()
			if err != nil {
				if fatalInLibrary(eb.String()) {
					crashed = append(crashed, mc.Failure{Clause: "no-crash", Unit: u, Case: "the worker process died while running this unit (twice: with its shard and alone)", Tags: []string{"crash"},
						Expected: "the library returns (a value or an error)", Got: crashSummary(eb.String())})
				} else {
					part.Exhaustive = false
					part.Caps = append(part.Caps, fmt.Sprintf("unit %s: worker failed when re-run alone (%v); not counted", u, err))
				}
				continue
			}
			b, err := os.ReadFile(outf)
			var p mc.Partial
			if err == nil {
				err = json.Unmarshal(b, &p)
			}
			if err == nil {
				part.Merge(p)
			}
		}
		return part, crashed
	}

	runUnits := func(names []string, tag string) (mc.Partial, error) {
		units := []unitInfo{}
		want := map[string]bool{}
		for _, n := range names {
			want[n] = true
		}
		for _, u := range listing.Units {
			if len(names) == 0 || want[u.Name] {
				units = append(units, u)
			}
		}
		w := sp.Workers
		if w == 0 {
			w = 16
		}
		if w > len(units) {
			w = len(units)
		}
		if w == 0 {
			return mc.Partial{Exhaustive: true}, nil
		}
		// longest-processing-time-first assignment; seed rotates ties only
		sort.SliceStable(units, func(i, j int) bool { return units[i].Weight > units[j].Weight })
		load := make([]int, w)
		assign := make([][]string, w)
		for _, u := range units {
			best := seed % w
			if best < 0 {
				best = 0
			}
			for i := range load {
				if load[i] < load[best] {
					best = i
				}
			}
			load[best] += u.Weight
			assign[best] = append(assign[best], u.Name)
		}
		var total mc.Partial
		total.Exhaustive = true
		var mu sync.Mutex
		var wg sync.WaitGroup
		var firstErr error
		for i := 0; i < w; i++ {
			if len(assign[i]) == 0 {
				continue
			}
			wg.Add(1)
			go func(i int) {
				defer wg.Done()
				outf := filepath.Join(work, fmt.Sprintf("part-%s-%d.json", tag, i))
				unitsFile := strings.Join(assign[i], ",")
				ctx, cancel := context.WithTimeout(context.Background(), budget+5*time.Minute)
				defer cancel()
				// ulimit -v keeps a runaway worker from exhausting the sandbox
				c := exec.CommandContext(ctx, "sh", "-c", "ulimit -v 25165824; exec \"$0\" \"$@\"", bin, "-par", "1", "-budget", budget.String(), "-out", outf, "-units", unitsFile, id, tier)
				gmp := "2"
				if sp.Procs > 0 {
					gmp = strconv.Itoa(sp.Procs)
				}
				c.Env = append(os.Environ(), "GOMAXPROCS="+gmp)
				var eb bytes.Buffer
				c.Stderr = &eb
				c.Stdout = &eb
				err := c.Run()
				mu.Lock()
				defer mu.Unlock()
				if err != nil {
					if ctx.Err() != nil {
						total.Exhaustive = false
						total.Caps = append(total.Caps, fmt.Sprintf("worker %d hit the hard deadline; its units are not counted: %s", i, unitsFile))
						return
					}
					// A fatal error of the Go runtime (out of memory, concurrent map writes, stack overflow, "all goroutines
					// are asleep") kills the worker. When the goroutine that died was executing code of the library, that is
					// a behaviour of the library: the units of the worker are re-run one by one to find the unit, which is
					// reported as a violation (clause no-crash); the other units are counted as usual. A crash without
					// library frames, or a harness panic, stays a broken check (exit 2).
					if fatalInLibrary(eb.String()) && len(assign[i]) >= 1 && !strings.HasPrefix(tag, "iso") {
						mu.Unlock()
						part, crashed := isolate(assign[i], tag, i)
						mu.Lock()
						total.Merge(part)
						for _, cf := range crashed {
							total.Failures = append(total.Failures, cf)
						}
						if len(crashed) == 0 && firstErr == nil {
							firstErr = fmt.Errorf("worker %d (%s) died and the crash did not recur unit by unit: %v\n%s", i, unitsFile, err, firstLines(eb.String(), 30))
						}
						return
					}
					if firstErr == nil {
						firstErr = fmt.Errorf("worker %d (%s): %v\n%s", i, unitsFile, err, eb.String())
					}
					return
				}
				b, err := os.ReadFile(outf)
				var p mc.Partial
				if err == nil {
					err = json.Unmarshal(b, &p)
				}
				if err != nil {
					if firstErr == nil {
						firstErr = fmt.Errorf("worker %d output: %v", i, err)
					}
					return
				}
				total.Merge(p)
			}(i)
		}
		wg.Wait()
		return total, firstErr
	}

	if replay != "" {
		b, err := os.ReadFile(replay)
		if err != nil {
			die(2, "replay: %v", err)
		}
		var f mc.Failure
		if err := json.Unmarshal(b, &f); err != nil {
			die(2, "replay: %v", err)
		}
		hits := 0
		for k := 0; k < 2; k++ {
			p, err := runUnits([]string{f.Unit}, fmt.Sprintf("replay%d", k))
			if err != nil {
				die(2, "%v", err)
			}
			for _, g := range p.Failures {
				if g.Sig() == f.Sig() {
					hits++
					break
				}
			}
		}
		if hits == 2 {
			fmt.Printf("replayed twice, same failure: clause=%s case=%s\n  expected: %s\n  got:      %s\n", f.Clause, f.Case, f.Expected, f.Got)
			fmt.Printf("VIOLATION property=%s replay=%s\n", id, replay)
			exit(1)
		}
		fmt.Printf("failure did not recur (%d of 2 runs)\n", hits)
		exit(0)
	}

	total, err := runUnits(nil, "main")
	if err != nil {
		fmt.Fprintln(os.Stderr, err)
		exit(2)
	}

	// known findings (read-only)
	var findings []finding
	if b, err := os.ReadFile(filepath.Join(verifDir, "known_findings.json")); err == nil {
		var kf struct {
			Findings []finding `json:"findings"`
		}
		if err := json.Unmarshal(b, &kf); err != nil {
			die(2, "known_findings.json: %v", err)
		}
		findings = kf.Findings
	}
	attributed := func(f mc.Failure) int {
		for i, k := range findings {
			if k.matches(id, f) {
				return i
			}
		}
		return -1
	}
	// 4. confirm failures that no open finding accounts for by running their units a second time
	confirmed := []mc.Failure{}
	var unconfirmed []string
	if len(total.Failures) > 0 {
		unitSet := map[string]bool{}
		isCrash := func(f mc.Failure) bool { return f.Clause == "no-crash" && len(f.Tags) == 1 && f.Tags[0] == "crash" }
		for _, f := range total.Failures {
			if attributed(f) < 0 && !isCrash(f) { // a crash was already observed twice (with its shard and alone)
				unitSet[f.Unit] = true
			}
		}
		var names []string
		for n := range unitSet {
			names = append(names, n)
		}
		sort.Strings(names)
		seen := map[string]bool{}
		if len(names) > 0 {
			again, err := runUnits(names, "confirm")
			if err != nil {
				fmt.Fprintln(os.Stderr, err)
				exit(2)
			}
			for _, f := range again.Failures {
				seen[f.Sig()+"|"+f.Got] = true
			}
		}
		for _, f := range total.Failures {
			if attributed(f) >= 0 || isCrash(f) || seen[f.Sig()+"|"+f.Got] {
				confirmed = append(confirmed, f)
			} else {
				unconfirmed = append(unconfirmed, f.Sig())
			}
		}
	}

	// 4b. auxiliary free-running pass under the race detector (samples schedules; a reported race is a violation)
	racePass := map[string]any{}
	if sp.Race {
		rbin := filepath.Join(work, "racepass")
		cmd := exec.Command("go", "build", "-race", "-tags", strings.ToLower(id), "-o", rbin, "./cmd/racepass")
		cmd.Dir = verifDir
		cmd.Env = env()
		if out, err := cmd.CombinedOutput(); err != nil {
			fmt.Fprintf(os.Stderr, "race pass build failed: %v\n%s\n", err, out)
			exit(2)
		}
		reps := "20"
		if tier == "thorough" {
			reps = "200"
		}
		// the pass takes seconds on a tree where the property holds; code that blocks or spins in it is stopped here
		// (the limit is recorded, never turned into a verdict: the exhaustive pass decides)
		limit := 3 * time.Minute
		if tier == "thorough" {
			limit = 10 * time.Minute
		}
		ctx, cancel := context.WithTimeout(context.Background(), limit)
		rc := exec.CommandContext(ctx, rbin, id, reps)
		rc.Env = append(os.Environ(), "GORACE=halt_on_error=0")
		out, rerr := rc.CombinedOutput()
		if ctx.Err() != nil {
			racePass["stopped_at_limit"] = limit.String()
		}
		cancel()
		txt := string(out)
		races := strings.Count(txt, "WARNING: DATA RACE")
		racePass["races"] = races
		if m := regexp.MustCompile(`RACEPASS runs=(\d+)`).FindStringSubmatch(txt); m != nil {
			n, _ := strconv.Atoi(m[1])
			racePass["runs"] = n
		}
		if races > 0 {
			i := strings.Index(txt, "WARNING: DATA RACE")
			e := i + 1500
			if e > len(txt) {
				e = len(txt)
			}
			// identify the race by the first poly source line in the report
			site := ""
			if m := regexp.MustCompile(`/repo/([^\s:]+:\d+)`).FindStringSubmatch(txt[i:]); m != nil {
				site = m[1]
			}
			confirmed = append(confirmed, mc.Failure{Clause: "data-race", Unit: "race", Case: "free-running -race pass: data race at " + site, Tags: []string{"race"}, Expected: "no data race", Got: txt[i:e]})
		} else if rerr != nil && ctx.Err() == nil {
			e := len(txt)
			if e > 1500 {
				txt = txt[e-1500:]
			}
			confirmed = append(confirmed, mc.Failure{Clause: "free-running-pass", Unit: "race", Case: "free-running pass ended abnormally", Tags: []string{"race"}, Expected: "every repetition completes", Got: txt})
		}
	}

	// 5. classify against the known-findings file
	knownSeen := map[int]int{}
	var fresh []mc.Failure
	for _, f := range confirmed {
		hit := attributed(f)
		if hit >= 0 {
			knownSeen[hit]++
		} else {
			fresh = append(fresh, f)
		}
	}
	os.MkdirAll(filepath.Join(verifDir, "replays"), 0o755)
	os.MkdirAll(filepath.Join(verifDir, "evidence"), 0o755)
	var viol []string
	sort.SliceStable(fresh, func(i, j int) bool { return len(fresh[i].Case) < len(fresh[j].Case) })
	for i, f := range fresh {
		if i >= 10 {
			break
		}
		path := filepath.Join(verifDir, "replays", fmt.Sprintf("%s-%s-%d.json", id, tier, i))
		js, _ := json.MarshalIndent(f, "", " ")
		os.WriteFile(path, js, 0o644)
		viol = append(viol, path)
		fmt.Printf("violation: clause=%s unit=%s case=%s\n  expected: %s\n  got:      %s\n", f.Clause, f.Unit, f.Case, oneLine(f.Expected), oneLine(f.Got))
	}

	// 6. evidence
	var knownList []string
	for i, n := range knownSeen {
		knownList = append(knownList, fmt.Sprintf("%s (%d cases)", findings[i].What, n))
	}
	sort.Strings(knownList)
	samples := []any{}
	for _, s := range total.Samples {
		samples = append(samples, s)
	}
	if len(samples) == 0 {
		samples = append(samples, "no sample recorded")
	}
	cov := map[string]any{
		"evaluations":                   total.Evaluations,
		"distinct_nontrivial":           total.Nontrivial,
		"rule":                          listing.Rule,
		"samples":                       samples,
		"states":                        total.States,
		"transitions":                   total.Transitions,
		"traces_validated_against_impl": total.Traces,
		"distinct_outcomes":             total.Outcomes,
		"exhaustive":                    total.Exhaustive && len(total.Caps) == 0,
		"caps_hit":                      nz(total.Caps),
		"bounds":                        total.Bounds,
		"units":                         len(total.Units),
		"skipped_upstream":              total.Skipped,
		"known_findings_seen":           nz(knownList),
		"unconfirmed_failures":          nz(unconfirmed),
		"failing_cases_total":           total.FailCount,
		"explanation":                   "every explored trace is an execution of the implementation built from the current /repo tree; there is no separate model whose traces need replaying",
		"instrumentation":               nz(notes),
		"race_pass":                     racePass,
	}
	ev := map[string]any{
		"property_id": id,
		"tier":        tier,
		"seed":        seed,
		"level":       "model_checking",
		"coverage":    cov,
		"assumptions": nz(listing.Assume),
		"wall_s":      time.Since(t0).Seconds(),
		"violations":  len(fresh),
	}
	js, _ := json.MarshalIndent(ev, "", " ")
	if err := os.WriteFile(filepath.Join(verifDir, "evidence", id+".json"), append(js, '\n'), 0o644); err != nil {
		die(2, "evidence: %v", err)
	}
	fmt.Printf("%s %s: evaluations=%d states=%d transitions=%d nontrivial=%d outcomes=%d units=%d exhaustive=%v wall=%.1fs\n",
		id, tier, total.Evaluations, total.States, total.Transitions, total.Nontrivial, total.Outcomes, len(total.Units), total.Exhaustive && len(total.Caps) == 0, time.Since(t0).Seconds())
	for _, c := range total.Caps {
		fmt.Println("cap:", c)
	}
	if os.Getenv("VERIF_VERBOSE") != "" {
		type uw struct {
			n string
			w float64
		}
		var l []uw
		for n, w := range total.UnitWall {
			l = append(l, uw{n, w})
		}
		sort.Slice(l, func(i, j int) bool { return l[i].w > l[j].w })
		for i, x := range l {
			if i < 12 {
				fmt.Printf("  unit %-50s %.1fs\n", x.n, x.w)
			}
		}
		for k, v := range total.Bounds {
			fmt.Printf("  bound %s: %s\n", k, v)
		}
		byClause := map[string]int{}
		example := map[string]string{}
		for _, f := range confirmed {
			k := f.Clause + " tags=" + strings.Join(f.Tags, ",")
			byClause[k]++
			if e, ok := example[k]; !ok || len(f.Case) < len(e) {
				example[k] = f.Case + " :: expected " + oneLine(f.Expected) + " :: got " + oneLine(f.Got)
			}
		}
		var ks []string
		for k := range byClause {
			ks = append(ks, k)
		}
		sort.Strings(ks)
		for _, k := range ks {
			fmt.Printf("  failing %3d x %s\n        e.g. %s\n", byClause[k], k, example[k])
		}
	}
	for i, n := range knownSeen {
		fmt.Printf("KNOWN-FINDING: property=%s %s [%d failing cases attributed]\n", id, findings[i].What, n)
	}
	for _, u := range unconfirmed {
		fmt.Println("unconfirmed (did not recur on re-run, not reported):", u)
	}
	if len(viol) > 0 {
		for _, p := range viol {
			fmt.Printf("VIOLATION property=%s replay=%s\n", id, p)
		}
		exit(1)
	}
	exit(0)
}

func nz(s []string) []string {
	if s == nil {
		return []string{}
	}
	return s
}

func oneLine(s string) string {
	s = strings.ReplaceAll(s, "\n", "\\n")
	if len(s) > 400 {
		s = s[:400] + "…"
	}
	return s
}


// fatalInLibrary reports whether a worker's output shows a fatal error of the Go runtime (not a harness panic) whose
// dying goroutine was executing code of the library under test.
func fatalInLibrary(out string) bool {
	if strings.Contains(out, "HARNESS-PANIC") {
		return false
	}
	i := crashIndex(out)
	if i < 0 {
		return false
	}
	rest := out[i:]
	// the first goroutine printed after the message is the one that died
	g := strings.Index(rest, "\ngoroutine ")
	if g < 0 {
		return false
	}
	stack := rest[g+1:]
	if e := strings.Index(stack, "\n\n"); e >= 0 {
		stack = stack[:e]
	}
	return strings.Contains(stack, "github.com/TimothyStiles/poly")
}

func firstLines(s string, n int) string {
	lines := strings.Split(s, "\n")
	if len(lines) > n {
		lines = lines[:n]
	}
	return strings.Join(lines, "\n")
}

// crashSummary: the fatal error line and the frames of the library in the stack of the goroutine that died.
func crashSummary(out string) string {
	i := crashIndex(out)
	if i < 0 {
		return firstLines(out, 6)
	}
	rest := out[i:]
	lines := []string{strings.SplitN(rest, "\n", 2)[0]}
	if g := strings.Index(rest, "\ngoroutine "); g >= 0 {
		stack := rest[g+1:]
		if e := strings.Index(stack, "\n\n"); e >= 0 {
			stack = stack[:e]
		}
		for _, l := range strings.Split(stack, "\n") {
			if strings.HasPrefix(l, "github.com/TimothyStiles/poly") {
				if k := strings.Index(l, "("); k > 0 {
					l = l[:k]
				}
				lines = append(lines, "  in "+l)
				if len(lines) > 6 {
					break
				}
			}
		}
	}
	return strings.Join(lines, "\n")
}

// crashIndex finds the message with which the Go runtime ended the process: a fatal error, or a panic that nothing
// recovered (for instance in a goroutine the library started itself).
func crashIndex(out string) int {
	if i := strings.Index(out, "fatal error:"); i >= 0 {
		return i
	}
	if strings.HasPrefix(out, "panic: ") {
		return 0
	}
	if i := strings.Index(out, "\npanic: "); i >= 0 {
		return i + 1
	}
	return -1
}
