package main

import "time"

func init() {
	m := time.Minute
	specs["C12"] = spec{BudgetQuick: 5 * m, BudgetThorough: 30 * m, Design: "§5 C12"}
}
