package main

import "time"

const poly = "github.com/TimothyStiles/poly/"

func init() {
	m := time.Minute
	specs["C04"] = spec{Race: true}
	specs["C12"] = spec{Race: true, BudgetQuick: 5 * m, BudgetThorough: 30 * m}
	specs["C13"] = spec{Race: true, Instr: map[string]string{poly + "io/fasta": "sched"}, Procs: 1, BudgetQuick: 2 * m, BudgetThorough: 15 * m}
	specs["C20"] = spec{Race: true, Instr: map[string]string{poly + "io/uniprot": "sched"}, Procs: 1, BudgetQuick: 3 * m, BudgetThorough: 20 * m}
	specs["C08"] = spec{Race: true, Instr: map[string]string{poly + "transform/codon": "maprange,yield,reset,digest"}, Procs: 1, BudgetQuick: 3 * m, BudgetThorough: 25 * m}
	specs["C07"] = spec{Instr: map[string]string{poly + "transform/codon": "rand", poly + "random": "rand", "github.com/mroth/weightedrand": "rand"}, Procs: 1, BudgetQuick: 3 * m, BudgetThorough: 25 * m}
	specs["C18"] = spec{Instr: map[string]string{poly + "transform/codon": "rand", "github.com/mroth/weightedrand": "rand"}, Procs: 1, BudgetQuick: 3 * m, BudgetThorough: 25 * m}
	specs["C03"] = spec{Instr: map[string]string{poly + "io/genbank": "maprange"}, Procs: 1, BudgetQuick: 3 * m, BudgetThorough: 25 * m}
	specs["C09"] = spec{Race: true, Instr: map[string]string{poly + "clone": "sched"}, Procs: 1, BudgetQuick: 4 * m, BudgetThorough: 20 * m}
}
