//go:build c08

package main

import (
	"sync"

	"github.com/TimothyStiles/poly/transform/codon"
)

func init() {
	ids := []int{1, 2, 3, 4, 11}
	seqs := []string{"ATGAAATTTGGG", "TTTATGCCC", "GGGATGAAA", "CCCAAATTTGGGATG", "ATGATGATG"}
	bodies["C08"] = func(rep int) {
		var wg sync.WaitGroup
		for i := range ids {
			wg.Add(1)
			go func(i int) {
				defer wg.Done()
				for k := 0; k < 20; k++ {
					t := codon.GetCodonTable(ids[i]).OptimizeTable(seqs[(i+k)%len(seqs)])
					_ = t
				}
			}(i)
		}
		wg.Wait()
	}
}
