//go:build c20

package main

import (
	"strings"
	"sync"

	"github.com/TimothyStiles/poly/io/uniprot"
)

func init() {
	doc := `<?xml version="1.0" encoding="UTF-8"?>
<uniprot xmlns="http://uniprot.org/uniprot">
<entry dataset="Swiss-Prot" created="2000-05-30" modified="2019-07-03" version="7">
<accession>P00001</accession>
<name>ONE_TEST</name>
<sequence length="5" mass="1" checksum="X" modified="2000-05-30" version="1">MKVLA</sequence>
</entry>
<entry dataset="Swiss-Prot" created="2000-05-30" modified="2019-07-03" version="7">
<accession>Q00002</accession>
<name>TWO_TEST</name>
<sequence length="5" mass="1" checksum="X" modified="2000-05-30" version="1">MGSSH</sequence>
</entry>
</uniprot>
`
	bodies["C20"] = func(rep int) {
		d := doc
		if rep%2 == 1 {
			d = doc[:len(doc)-40-rep]
		}
		entries := make(chan uniprot.Entry, rep%2)
		errs := make(chan error, rep%3)
		go uniprot.Parse(strings.NewReader(d), entries, errs)
		var wg sync.WaitGroup
		wg.Add(1)
		go func() {
			defer wg.Done()
			for range errs {
			}
		}()
		for range entries {
		}
		wg.Wait()
	}
}
