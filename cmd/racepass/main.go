// racepass is the auxiliary free-running pass: the concurrent bodies of the
// schedule harnesses, un-instrumented, built with -race and run at several
// GOMAXPROCS settings. The cooperative scheduler's hand-offs are happens-before
// edges, so unsynchronised accesses are looked for here instead. It samples
// schedules: a reported race is a violation (the detector has no false
// positives); silence is not counted as coverage.
package main

import (
	"fmt"
	"os"
	"runtime"
	"strconv"
)

var bodies = map[string]func(rep int){}

func main() {
	if len(os.Args) < 2 {
		fmt.Println("usage: racepass <id> [reps]")
		os.Exit(2)
	}
	body, ok := bodies[os.Args[1]]
	if !ok {
		fmt.Println("RACEPASS none")
		return
	}
	reps := 20
	if len(os.Args) > 2 {
		reps, _ = strconv.Atoi(os.Args[2])
	}
	runs := 0
	for _, p := range []int{1, 2, 16} {
		runtime.GOMAXPROCS(p)
		for i := 0; i < reps; i++ {
			body(i)
			runs++
		}
	}
	fmt.Printf("RACEPASS runs=%d\n", runs)
}
