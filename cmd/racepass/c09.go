//go:build c09

package main

import (
	"fmt"
	"sort"
	"strings"

	"github.com/TimothyStiles/poly/clone"
	"github.com/TimothyStiles/poly/seqhash"
)

func init() {
	body := func(i int) string {
		return "AC" + strings.Repeat("A", i+1) + "C" + strings.Repeat("TTACATCATA", 3) + strings.Repeat("T", i+1) + "CA"
	}
	f := func(fwd string, i int, rev string) clone.Fragment {
		return clone.Fragment{Sequence: body(i), ForwardOverhang: fwd, ReverseOverhang: rev}
	}
	// a five-junction ring with two-way libraries in two slots, a slot-skipping fragment, a dead-end decoy
	// and a side cycle that excludes every ring seed; constructs are longer than 128 bases
	frags := []clone.Fragment{
		f("AAGG", 0, "ACTC"), f("AAGG", 1, "ACTC"),
		f("ACTC", 2, "GGTA"),
		f("GGTA", 3, "CGAA"), f("GGTA", 4, "CGAA"),
		f("CGAA", 5, "TCAG"),
		f("TCAG", 6, "AAGG"),
		f("ACTC", 7, "CGAA"),                        // skips two slots
		f("GGTA", 8, "TTGC"),                        // dead end
		f("CGAA", 9, "ATCC"), f("ATCC", 10, "CGAA"), // side cycle
	}
	var reference string
	bodies["C09"] = func(rep int) {
		in := append([]clone.Fragment(nil), frags...)
		// rotate the input order between repetitions
		k := rep % len(in)
		in = append(in[k:], in[:k]...)
		parts := clone.CircularLigate(in)
		var hs []string
		for _, p := range parts {
			h, _ := seqhash.Hash(p.Sequence, "DNA", true, true)
			hs = append(hs, h)
		}
		sort.Strings(hs)
		for i := 1; i < len(hs); i++ {
			if hs[i] == hs[i-1] {
				panic("racepass C09: the same molecule was returned twice")
			}
		}
		got := fmt.Sprint(len(hs), hs)
		if reference == "" {
			reference = got
		} else if got != reference {
			panic("racepass C09: the set of constructs differs between runs: " + got[:20] + " vs " + reference[:20])
		}
	}
}
