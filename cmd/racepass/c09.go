//go:build c09

package main

import (
	"github.com/TimothyStiles/poly/clone"
)

func init() {
	frags := []clone.Fragment{
		{Sequence: "ACAACTCA", ForwardOverhang: "AAGG", ReverseOverhang: "ACTC"},
		{Sequence: "ACAATTCA", ForwardOverhang: "AAGG", ReverseOverhang: "ACTC"},
		{Sequence: "ACAAACTCA", ForwardOverhang: "ACTC", ReverseOverhang: "GGTA"},
		{Sequence: "TGAAAGTTGT", ForwardOverhang: "CCTT", ReverseOverhang: "TACC"}, // GGTA->AAGG supplied flipped
		{Sequence: "ACGGCA", ForwardOverhang: "AAGG", ReverseOverhang: "TTGC"},
	}
	bodies["C09"] = func(rep int) {
		parts := clone.CircularLigate(frags)
		if len(parts) != 2 {
			panic("racepass C09: unexpected number of constructs")
		}
	}
}
