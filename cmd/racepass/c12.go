//go:build c12

package main

import (
	"strings"
	"sync"

	"github.com/TimothyStiles/poly/seqhash"
)

func init() {
	seqs := []string{"GATTACAGGCTTAACCGTAGG", strings.Repeat("ACG", 30) + "AC", "TTTTTTTTTTA", "CAGTCAGTCAGTCAGG", "AB", strings.Repeat("GATC", 100) + "A"}
	want := make([]string, len(seqs))
	for i, s := range seqs {
		want[i] = seqhash.RotateSequence(s)
	}
	bodies["C12"] = func(rep int) {
		var wg sync.WaitGroup
		bad := make(chan int, 64)
		for g := 0; g < 8; g++ {
			wg.Add(1)
			go func(g int) {
				defer wg.Done()
				for k := 0; k < 20; k++ {
					i := (g + k + rep) % len(seqs)
					r := (g*3 + k) % len(seqs[i])
					if seqhash.RotateSequence(seqs[i][r:]+seqs[i][:r]) != want[i] {
						bad <- i
					}
				}
			}(g)
		}
		wg.Wait()
		if len(bad) > 0 {
			panic("racepass C12: concurrent RotateSequence calls gave a different canonical rotation than sequential ones")
		}
	}
}
