//go:build c12

package main

import (
	"strings"
	"sync"
	"sync/atomic"

	"github.com/TimothyStiles/poly/seqhash"
)

func init() {
	seqs := []string{"GATTACAGGCTTAACCGTAGG", strings.Repeat("ACG", 30) + "AC", "TTTTTTTTTTA", "CAGTCAGTCAGTCAGG", "AB", strings.Repeat("GATC", 100) + "A"}
	want := make([]string, len(seqs))
	for i, s := range seqs {
		want[i] = seqhash.RotateSequence(s)
	}
	bodies["C12"] = func(rep int) {
		var wg sync.WaitGroup
		var bad int64 // a counter, not a channel: a wrong rotation in every call must not block the senders
		for g := 0; g < 8; g++ {
			wg.Add(1)
			go func(g int) {
				defer wg.Done()
				for k := 0; k < 20; k++ {
					i := (g + k + rep) % len(seqs)
					r := (g*3 + k) % len(seqs[i])
					if seqhash.RotateSequence(seqs[i][r:]+seqs[i][:r]) != want[i] {
						atomic.AddInt64(&bad, 1)
					}
				}
			}(g)
		}
		wg.Wait()
		if atomic.LoadInt64(&bad) > 0 {
			panic("racepass C12: concurrent RotateSequence calls gave a different canonical rotation than sequential ones")
		}
	}
}
