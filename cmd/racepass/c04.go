//go:build c04

package main

import (
	"sync"

	"github.com/TimothyStiles/poly/seqhash"
)

func init() {
	base := "GATTACAGGCTTAACCGTAGGCATTACGATCCAGTTAGCATCGGATCAATTGCGCGATATCGGCTAGCTAAGCTCTAGGATCC"
	bodies["C04"] = func(rep int) {
		want, _ := seqhash.Hash(base, "DNA", true, true)
		var wg sync.WaitGroup
		bad := make(chan string, 8*10) // room for a wrong hash from every call: senders never block
		for g := 0; g < 8; g++ {
			wg.Add(1)
			go func(g int) {
				defer wg.Done()
				for k := 0; k < 10; k++ {
					r := (g*11 + k*7 + rep) % len(base)
					h, err := seqhash.Hash(base[r:]+base[:r], "DNA", true, true)
					if err != nil || h != want {
						bad <- h
					}
				}
			}(g)
		}
		wg.Wait()
		if len(bad) > 0 {
			panic("racepass C04: rotations of one plasmid hashed concurrently gave different seqhashes")
		}
	}
}
