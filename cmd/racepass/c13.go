//go:build c13

package main

import (
	"bytes"
	"fmt"
	"runtime"

	"github.com/TimothyStiles/poly/io/fasta"
)

func init() {
	var recs []fasta.Fasta
	for i := 0; i < 60; i++ {
		recs = append(recs, fasta.Fasta{Name: fmt.Sprintf("r%d", i), Sequence: "ACGTACGTAC"})
	}
	text := fasta.Build(recs)
	bodies["C13"] = func(rep int) {
		ch := make(chan fasta.Fasta, rep%3)
		go fasta.ParseConcurrent(bytes.NewReader(text), ch)
		n := 0
		for range ch {
			n++
			if rep%2 == 0 {
				runtime.Gosched()
			}
		}
		if n != len(recs) {
			panic("racepass C13: wrong number of records")
		}
		if got := fasta.Parse(bytes.NewReader(text)); len(got) != len(recs) {
			panic("racepass C13: Parse")
		}
	}
}
