// verifbin is the worker: it runs the units of one property's harness that are
// assigned to it and prints what it covered as JSON.
package main

import (
	"encoding/json"
	"flag"
	"fmt"
	"os"
	"runtime"
	"runtime/debug"
	"runtime/pprof"
	"strings"
	"sync"
	"time"

	"verif/mc"
	_ "verif/props"
	"verif/sched"
	"verif/vmap"
	"verif/vrand"
)

func main() {
	list := flag.Bool("list", false, "list units")
	unitsArg := flag.String("units", "", "comma-separated unit names to run (default all)")
	out := flag.String("out", "", "write partial evidence JSON here (default stdout)")
	budget := flag.Duration("budget", 0, "soft time budget per worker; units stop cleanly with exhaustive:false")
	par := flag.Int("par", runtime.NumCPU(), "max concurrent non-serial units")
	prof := flag.String("cpuprofile", "", "write a CPU profile here")
	flag.Parse()
	if *prof != "" {
		f, err := os.Create(*prof)
		if err == nil {
			pprof.StartCPUProfile(f)
			defer pprof.StopCPUProfile()
		}
	}
	if flag.NArg() < 2 {
		fmt.Fprintln(os.Stderr, "usage: verifbin [flags] <id> <tier>")
		os.Exit(2)
	}
	id, tier := flag.Arg(0), flag.Arg(1)
	h := mc.Lookup(id)
	if h == nil {
		fmt.Fprintln(os.Stderr, "unknown property", id, "have", mc.IDs())
		os.Exit(2)
	}
	units := h.Units(tier)
	if *list {
		type u struct {
			Name   string `json:"name"`
			Serial bool   `json:"serial"`
			Weight int    `json:"weight"`
		}
		var us []u
		for _, x := range units {
			w := x.Weight
			if w == 0 {
				w = 1
			}
			us = append(us, u{x.Name, x.Serial, w})
		}
		js, _ := json.Marshal(map[string]any{"units": us, "rule": h.Rule, "assume": h.Assume})
		fmt.Println(string(js))
		return
	}
	want := map[string]bool{}
	if *unitsArg != "" {
		for _, n := range strings.Split(*unitsArg, ",") {
			want[n] = true
		}
	}
	var deadline time.Time
	if *budget > 0 {
		deadline = time.Now().Add(*budget)
	}
	var total mc.Partial
	total.Exhaustive = true
	var mu sync.Mutex
	runUnit := func(u mc.Unit) {
		r := mc.NewRecorder(u.Name)
		r.SetDeadline(deadline)
		t0 := time.Now()
		func() {
			defer func() {
				if e := recover(); e != nil {
					if fb, ok := e.(sched.ForeignBlock); ok {
						// the code under test blocks in a primitive the cooperative scheduler does not model: the rest of
						// the unit is not decided (reported as a cap), and nothing is reported as a violation
						mc.Cur = nil
						vrand.Enabled, vrand.Bounded, vmap.Enabled = false, false, false
						r.Cap("unit abandoned, not decided: " + fb.Error())
						return
					}
					// A panic escaping a unit is a harness error (implementation panics are caught by the harness and
					// judged there): typically harness code tripping over a result of an unexpected shape. The rest of
					// the unit is not decided; what it recorded so far stands. VERIF_STRICT=1 makes it fatal (for
					// developing the harness).
					fmt.Fprintf(os.Stderr, "HARNESS-PANIC unit=%s: %v\n%s\n", u.Name, e, debug.Stack())
					if os.Getenv("VERIF_STRICT") != "" {
						os.Exit(3)
					}
					mc.Cur = nil
					vrand.Enabled, vrand.Bounded, vmap.Enabled = false, false, false
					r.Cap(fmt.Sprintf("unit abandoned after a panic in harness code, not decided: %v", e))
					return
				}
			}()
			if u.Procs > 0 && u.Serial {
				old := runtime.GOMAXPROCS(u.Procs)
				defer runtime.GOMAXPROCS(old)
			}
			u.Run(r)
		}()
		p := r.Partial()
		p.UnitWall[u.Name] = time.Since(t0).Seconds()
		mu.Lock()
		total.Merge(p)
		mu.Unlock()
	}
	sem := make(chan struct{}, *par)
	var wg sync.WaitGroup
	for _, u := range units {
		if len(want) > 0 && !want[u.Name] {
			continue
		}
		if u.Serial {
			continue
		}
		wg.Add(1)
		sem <- struct{}{}
		go func(u mc.Unit) {
			defer wg.Done()
			defer func() { <-sem }()
			runUnit(u)
		}(u)
	}
	wg.Wait()
	for _, u := range units {
		if len(want) > 0 && !want[u.Name] {
			continue
		}
		if u.Serial {
			runUnit(u)
		}
	}
	js := total.JSON()
	if *out != "" {
		if err := os.WriteFile(*out, js, 0o644); err != nil {
			fmt.Fprintln(os.Stderr, err)
			os.Exit(2)
		}
	} else {
		os.Stdout.Write(js)
		fmt.Println()
	}
}
