// Package vsync stands in for "sync" in instrumented packages.
package vsync

import (
	"sync"

	"verif/sched"
)

type WaitGroup = sched.WaitGroup
type Mutex = sched.Mutex
type RWMutex = sched.RWMutex
type Once = sched.Once

// Types without scheduling semantics are passed through.
type Pool = sync.Pool

// Map is sync.Map with a scheduling point before every operation, so that
// Load-then-Store sequences are interleaved by the explorer.
type Map struct{ m sync.Map }

func (x *Map) Load(k any) (any, bool)           { sched.Yield(); return x.m.Load(k) }
func (x *Map) Store(k, v any)                   { sched.Yield(); x.m.Store(k, v) }
func (x *Map) LoadOrStore(k, v any) (any, bool) { sched.Yield(); return x.m.LoadOrStore(k, v) }
func (x *Map) LoadAndDelete(k any) (any, bool)  { sched.Yield(); return x.m.LoadAndDelete(k) }
func (x *Map) Delete(k any)                     { sched.Yield(); x.m.Delete(k) }
func (x *Map) Swap(k, v any) (any, bool)        { sched.Yield(); return x.m.Swap(k, v) }
func (x *Map) CompareAndSwap(k, o, n any) bool  { sched.Yield(); return x.m.CompareAndSwap(k, o, n) }
func (x *Map) CompareAndDelete(k, o any) bool   { sched.Yield(); return x.m.CompareAndDelete(k, o) }
func (x *Map) Range(f func(k, v any) bool)      { sched.Yield(); x.m.Range(f) }
func (x *Map) Clear()                           { sched.Yield(); x.m.Clear() }

type Locker = sync.Locker
type Cond = sync.Cond

func NewCond(l Locker) *Cond { return sync.NewCond(l) }
