// Package vsync stands in for "sync" in instrumented packages.
package vsync

import (
	"sync"

	"verif/sched"
)

type WaitGroup = sched.WaitGroup
type Mutex = sched.Mutex
type RWMutex = sched.RWMutex
type Once = sched.Once

// Types without scheduling semantics are passed through.
type Pool = sync.Pool
type Map = sync.Map
type Locker = sync.Locker
type Cond = sync.Cond

func NewCond(l Locker) *Cond { return sync.NewCond(l) }
