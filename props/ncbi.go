package props

import (
	"sort"
	"strings"
)

// Oracle: the NCBI genetic codes written as differences from the standard code
// (table 1), plus each table's start and stop codon sets as NCBI's gc.prt gives
// them. Deliberately not the 64-letter strings, so that a transcription slip in
// one representation cannot cancel in the other.

var ncbiStandard = func() map[string]byte {
	m := map[string]byte{}
	set := func(aa byte, codons ...string) {
		for _, c := range codons {
			m[c] = aa
		}
	}
	four := func(aa byte, p string) { set(aa, p+"T", p+"C", p+"A", p+"G") }
	set('F', "TTT", "TTC")
	set('L', "TTA", "TTG")
	four('L', "CT")
	set('I', "ATT", "ATC", "ATA")
	set('M', "ATG")
	four('V', "GT")
	four('S', "TC")
	set('S', "AGT", "AGC")
	four('P', "CC")
	four('T', "AC")
	four('A', "GC")
	set('Y', "TAT", "TAC")
	set('*', "TAA", "TAG", "TGA")
	set('H', "CAT", "CAC")
	set('Q', "CAA", "CAG")
	set('N', "AAT", "AAC")
	set('K', "AAA", "AAG")
	set('D', "GAT", "GAC")
	set('E', "GAA", "GAG")
	set('C', "TGT", "TGC")
	set('W', "TGG")
	four('R', "CG")
	set('R', "AGA", "AGG")
	four('G', "GG")
	if len(m) != 64 {
		panic("standard code incomplete")
	}
	return m
}()

type ncbiCode struct {
	diff   string // "CODON=X CODON=Y"
	starts string
	stops  string
}

var ncbiCodes = map[int]ncbiCode{
	1:  {"", "TTG CTG ATG", "TAA TAG TGA"},
	2:  {"AGA=* AGG=* ATA=M TGA=W", "ATT ATC ATA ATG GTG", "TAA TAG AGA AGG"},
	3:  {"ATA=M CTT=T CTC=T CTA=T CTG=T TGA=W", "ATA ATG GTG", "TAA TAG"},
	4:  {"TGA=W", "TTA TTG CTG ATT ATC ATA ATG GTG", "TAA TAG"},
	5:  {"AGA=S AGG=S ATA=M TGA=W", "TTG ATT ATC ATA ATG GTG", "TAA TAG"},
	6:  {"TAA=Q TAG=Q", "ATG", "TGA"},
	9:  {"AAA=N AGA=S AGG=S TGA=W", "ATG GTG", "TAA TAG"},
	10: {"TGA=C", "ATG", "TAA TAG"},
	11: {"", "TTG CTG ATT ATC ATA ATG GTG", "TAA TAG TGA"},
	12: {"CTG=S", "CTG ATG", "TAA TAG TGA"},
	13: {"AGA=G AGG=G ATA=M TGA=W", "TTG ATA ATG GTG", "TAA TAG"},
	14: {"AAA=N AGA=S AGG=S TAA=Y TGA=W", "ATG", "TAG"},
	16: {"TAG=L", "ATG", "TAA TGA"},
	21: {"TGA=W ATA=M AGA=S AGG=S AAA=N", "ATG GTG", "TAA TAG"},
	22: {"TCA=* TAG=L", "ATG", "TCA TAA TGA"},
	23: {"TTA=*", "ATT ATG GTG", "TTA TAA TAG TGA"},
	24: {"AGA=S AGG=K TGA=W", "TTG CTG ATG GTG", "TAA TAG"},
	25: {"TGA=G", "TTG ATG GTG", "TAA TAG"},
	26: {"CTG=A", "CTG ATG", "TAA TAG TGA"},
	27: {"TAA=Q TAG=Q TGA=W", "ATG", "TGA"},
	28: {"TAA=Q TAG=Q TGA=W", "ATG", "TAA TAG TGA"},
	29: {"TAA=Y TAG=Y", "ATG", "TGA"},
	30: {"TAA=E TAG=E", "ATG", "TGA"},
	31: {"TGA=W TAG=E TAA=E", "ATG", "TAA TAG"},
	33: {"TAA=Y TGA=W AGA=S AGG=K", "TTG CTG ATG GTG", "TAG"},
}

func ncbiTable(id int) map[string]byte {
	m := map[string]byte{}
	for k, v := range ncbiStandard {
		m[k] = v
	}
	for _, d := range strings.Fields(ncbiCodes[id].diff) {
		m[d[:3]] = d[4]
	}
	return m
}

func ncbiTranslate(tbl map[string]byte, dna string) string {
	var b strings.Builder
	u := strings.ToUpper(dna)
	for i := 0; i+3 <= len(u); i += 3 {
		b.WriteByte(tbl[u[i:i+3]])
	}
	return b.String()
}

func ncbiIDs() []int {
	var ids []int
	for id := range ncbiCodes {
		ids = append(ids, id)
	}
	sort.Ints(ids)
	return ids
}
