//go:build c15

package props

import (
	"encoding/json"
	"fmt"
	"math"
	"os"
	"path/filepath"
	"reflect"
	"strconv"
	"strings"

	"github.com/TimothyStiles/poly"
	"github.com/TimothyStiles/poly/io/genbank"
	"github.com/TimothyStiles/poly/io/gff"
	"github.com/TimothyStiles/poly/io/polyjson"

	"verif/mc"
)

// c15norm: a copy in which absent and empty collections are the same and the
// parent pointers are dropped (they are checked separately).
func c15normLoc(l poly.Location) poly.Location {
	if l.SubLocations == nil {
		return l
	}
	if len(l.SubLocations) == 0 {
		l.SubLocations = []poly.Location{} // empty but present stays empty but present (the domain has both)
		return l
	}
	subs := make([]poly.Location, len(l.SubLocations))
	for i, s := range l.SubLocations {
		subs[i] = c15normLoc(s)
	}
	l.SubLocations = subs
	return l
}

func c15norm(s poly.Sequence) poly.Sequence {
	c := s
	// empty and absent collections are different values of the domain and are compared as such; only the feature list
	// itself is rebuilt by Parse (always present afterwards), so nil and empty feature lists are identified
	c.Features = nil
	for _, f := range s.Features {
		f.ParentSequence = nil
		f.SequenceLocation = c15normLoc(f.SequenceLocation)
		c.Features = append(c.Features, f)
	}
	return c
}

func c15featSeqs(s poly.Sequence) []string {
	var out []string
	for _, f := range s.Features {
		var g string
		if p := catch(func() { g = f.GetSequence() }); p != "" {
			g = "<invalid location>"
		}
		out = append(out, g)
	}
	return out
}

type c15prev struct {
	y    poly.Sequence
	want []string
	seq  string
	cas  string
}

// c15judge: one annotated sequence through Marshal + polyjson.Parse.
func c15judge(r *mc.Recorder, cas string, tags []string, x poly.Sequence, prev *c15prev) {
	fail := func(clause, exp, got string) { r.Failf(clause, cas, tags, exp, got) }
	want := c15featSeqs(x)
	var y poly.Sequence
	if p := catch(func() {
		js, err := json.Marshal(x)
		if err != nil {
			panic(err)
		}
		y = polyjson.Parse(js)
	}); p != "" {
		fail("no-panic", "a value", "panic: "+p)
		return
	}
	nx, ny := c15norm(x), c15norm(y)
	if !reflect.DeepEqual(nx, ny) {
		// locate the first differing part for the report
		what := "value"
		switch {
		case !reflect.DeepEqual(nx.Meta, ny.Meta):
			what = fmt.Sprintf("meta: %+v vs %+v", nx.Meta, ny.Meta)
		case nx.Sequence != ny.Sequence || nx.Description != ny.Description || nx.SequenceHash != ny.SequenceHash || nx.SequenceHashFunction != ny.SequenceHashFunction:
			what = "top-level strings"
		case len(nx.Features) != len(ny.Features):
			what = fmt.Sprintf("%d vs %d features", len(nx.Features), len(ny.Features))
		default:
			for i := range nx.Features {
				if !reflect.DeepEqual(nx.Features[i], ny.Features[i]) {
					what = fmt.Sprintf("feature %d: %+v vs %+v", i, nx.Features[i], ny.Features[i])
					break
				}
			}
		}
		fail("equal-in-every-field", "the value that was serialised", what)
	}
	check := func(label string, y poly.Sequence, want []string, seq string, clause string) {
		for i, f := range y.Features {
			if f.ParentSequence == nil {
				r.Failf(clause, label, tags, fmt.Sprintf("feature %d linked to its parent", i), "nil parent")
				continue
			}
			if f.ParentSequence.Sequence != seq {
				r.Failf(clause, label, tags, "parent holding the sequence "+q(seq), q(f.ParentSequence.Sequence))
				continue
			}
			if i < len(want) && want[i] != "<invalid location>" {
				var g string
				if p := catch(func() { g = f.GetSequence() }); p != "" || g != want[i] {
					r.Failf(clause, label, tags, fmt.Sprintf("feature %d sequence %s", i, q(want[i])), q(g)+p)
				}
			}
		}
	}
	check(cas, y, want, x.Sequence, "features-relinked")
	// the value read before this one must be unaffected by this Parse
	if prev.cas != "" {
		check(prev.cas+" (re-checked after a later Parse)", prev.y, prev.want, prev.seq, "features-relinked-stable")
	}
	*prev = c15prev{y, want, x.Sequence, cas}
}

// c15viaFile: the same round trip through the library's own writer and reader (a file).
func c15viaFile(r *mc.Recorder, dir, cas string, tags []string, x poly.Sequence) {
	p := filepath.Join(dir, "v.json")
	var y poly.Sequence
	if pn := catch(func() { polyjson.Write(x, p); y = polyjson.Read(p) }); pn != "" {
		r.Failf("no-panic", cas+" (Write/Read via a file)", tags, "a value", pn)
		return
	}
	if !reflect.DeepEqual(c15norm(x), c15norm(y)) {
		r.Failf("equal-in-every-field", cas+" (Write/Read via a file)", tags, "the value that was written", "differs")
		return
	}
	want := c15featSeqs(x)
	for i, f := range y.Features {
		if i < len(want) && want[i] != "<invalid location>" {
			var g string
			if pn := catch(func() { g = f.GetSequence() }); pn != "" || g != want[i] {
				r.Failf("features-relinked", cas+" (Write/Read via a file)", tags, fmt.Sprintf("feature %d sequence %s", i, q(want[i])), q(g)+pn)
			}
		}
	}
}

var c15texts = []string{"plain ASCII text", "café é", "日本語のテキスト", "emoji 😀 here", `quote " inside`, `back\slash`, "<&> html", "line\nbreak\tand tab", "sep arator", ""}

// location shapes as structures, including shapes no parser produces
func c15loc(k, L int) poly.Location {
	sp := func(a, b int) poly.Location { return poly.Location{Start: a, End: b} }
	a, b := 1%L, L
	switch k {
	case 0:
		return sp(0, L)
	case 1:
		return poly.Location{Start: a, End: b, Complement: true}
	case 2:
		return poly.Location{Join: true, SubLocations: []poly.Location{sp(0, 1), sp(a, b)}}
	case 3:
		return poly.Location{Join: true, Complement: true, SubLocations: []poly.Location{sp(0, 1), {Start: a, End: b, Complement: true}}}
	case 4:
		return poly.Location{Start: 0, End: L, FivePrimePartial: true}
	case 5:
		return poly.Location{Start: 0, End: L, ThreePrimePartial: true, FivePrimePartial: true}
	case 6: // depth 4
		return poly.Location{Join: true, SubLocations: []poly.Location{{Join: true, Complement: true, SubLocations: []poly.Location{sp(0, 1), {Join: true, SubLocations: []poly.Location{{Start: a, End: b, Complement: true, ThreePrimePartial: true}, sp(0, L)}}}}, sp(0, 1)}}
	case 7: // a wrapper node with a single sub-location and its own coordinates and flags
		return poly.Location{Start: 0, End: L, FivePrimePartial: true, SubLocations: []poly.Location{sp(0, 1)}}
	case 8: // nested single-child wrappers
		return poly.Location{SubLocations: []poly.Location{{Start: 0, End: 1, ThreePrimePartial: true, SubLocations: []poly.Location{{Join: true, SubLocations: []poly.Location{sp(0, L), sp(0, 1)}}}}}}
	default: // empty (non-nil) sub-location list
		return poly.Location{Start: 0, End: L, SubLocations: []poly.Location{}}
	}
}

func c15structured(c *mc.Ctx, tags *[]string) poly.Sequence {
	L := []int{12, 1, 70}[c.Dev("seq-length", 3)]
	var s poly.Sequence
	s.Sequence = gbSeq(L, 9)
	// the coordinates of features are data of their own: they may lie beyond the bases the record carries
	// (a record for a sub-region, or one without bases at all) and must survive the round trip as they are
	locL := L
	switch c.Dev("bases-vs-coordinates", 3) {
	case 1:
		locL = L + 25
	case 2:
		s.Sequence = ""
	}
	txt := func(label string) string { return c15texts[c.Dev(label, len(c15texts))] }
	s.Description = txt("description")
	s.SequenceHash, s.SequenceHashFunction = "v1_DLD_abc", "seqhash"
	s.Meta = poly.Meta{Name: "n1", GffVersion: "3", RegionStart: 1, RegionEnd: L, Size: L - 1, Type: "DNA", Date: "01-JAN-2000",
		Definition: txt("definition"), Accession: "A1", Version: "A1.1", Keywords: ".", Organism: txt("organism"), Source: "src", Origin: "o",
		Locus: poly.Locus{Name: "l1", SequenceLength: strconv.Itoa(L), MoleculeType: "DNA", GenbankDivision: "SYN", ModificationDate: "01-JAN-2000", SequenceCoding: "bp", Linear: true}}
	switch c.Dev("topology", 3) {
	case 1:
		s.Meta.Locus.Linear, s.Meta.Locus.Circular = false, true
	case 2:
		s.Meta.Locus.Linear = false
	}
	switch c.Dev("references", 4) {
	case 0:
		s.Meta.References = []poly.Reference{{Index: "1", Authors: "A", Title: txt("ref-title"), Journal: "J", PubMed: "1", Remark: "r", Range: "(bases 1 to 2)"}}
	case 1:
		s.Meta.References = nil
	case 2:
		s.Meta.References = []poly.Reference{}
	case 3:
		s.Meta.References = []poly.Reference{{Index: "1"}, {Index: "2", Remark: txt("ref-remark")}, {Index: "3", Authors: "Z"}}
	}
	switch c.Dev("other", 4) {
	case 0:
		s.Meta.Other = map[string]string{"COMMENT": "c"}
	case 1:
		s.Meta.Other = nil
	case 2:
		s.Meta.Other = map[string]string{}
	case 3:
		s.Meta.Other = map[string]string{"COMMENT": txt("other-text"), "DBLINK": "d", "": "empty key"}
	}
	nf := []int{1, 0, 2, 3, -1}[c.Dev("features", 5)]
	if nf == -1 {
		s.Features = []poly.Feature{} // empty but present
		return s
	}
	for i := 0; i < nf; i++ {
		f := poly.Feature{Name: "seqid", Source: "src", Type: "gene", Score: ".", Strand: "+", Phase: "0", Sequence: "cached", SequenceHash: "h", Description: txt(fmt.Sprintf("f%d.description", i)), SequenceHashFunction: "seqhash"}
		f.SequenceLocation = c15loc(c.Dev(fmt.Sprintf("f%d.location", i), 10), locL)
		if c.Dev(fmt.Sprintf("f%d.cached-text", i), 2) == 1 {
			f.GbkLocationString = "join(1..2,3..4)"
		}
		switch c.Dev(fmt.Sprintf("f%d.attributes", i), 4) {
		case 0:
			f.Attributes = map[string]string{"gene": "g"}
		case 1:
			f.Attributes = nil
		case 2:
			f.Attributes = map[string]string{}
		case 3:
			f.Attributes = map[string]string{"note": txt(fmt.Sprintf("f%d.attr-text", i)), "k2": "", "translation": "MKV"}
		}
		loc := f.SequenceLocation
		s.AddFeature(&f)
		// the value under test carries exactly the intended location, whatever AddFeature did with it
		s.Features[len(s.Features)-1].SequenceLocation = loc
	}
	return s
}

func c15units(tier string) []mc.Unit {
	dev := tier2(tier, 2, 3)
	var us []mc.Unit
	for fc := 0; fc < 5; fc++ {
		fc := fc
		us = append(us, mc.Unit{Name: fmt.Sprintf("structured/features-choice=%d", fc), Weight: 100, Run: func(r *mc.Recorder) {
			var prev c15prev
			var cnt int64
			st := mc.Explore(mc.Options{DevBound: dev, PreemptBound: -1, Deadline: r.TimeUp}, func(c *mc.Ctx) bool {
				var tags []string
				x := c15structured(c, &tags)
				want := []int{1, 0, 2, 3, 0}[fc]
				if len(x.Features) != want || (fc == 4) != (x.Features != nil && len(x.Features) == 0) {
					return true
				}
				cnt++
				c15judge(r, "assembled: "+c.Describe(), tags, x, &prev)
				if cnt == 12 {
					js, _ := json.Marshal(x)
					r.Sample("assembled: " + c.Describe() + "\n" + string(js))
				}
				return true
			})
			r.AddExplore(st, "structured")
			r.Evaluations, r.Traces = cnt, cnt
			r.AddStates(cnt)
			r.AddNontrivial(cnt)
			r.Bound("structured", fmt.Sprintf("assembled annotated sequences with at most %d deviations: 10 text kinds (ASCII, accents, CJK, emoji, quote, backslash, <&>, newline/tab, U+2028, empty) in 7 string fields, absent/empty/populated references, other keywords, attributes and features, 10 location shapes (to depth 4, partial flags, single-child wrapper nodes), cached location text, topology; each value re-checked after the next Parse", dev))
		}})
	}
	// pairs of JSON-hostile tokens in two string fields (what one value ends with may change how a later one is read)
	us = append(us, mc.Unit{Name: "token-pairs", Weight: 60, Run: func(r *mc.Recorder) {
		var prev c15prev
		var cnt int64
		toks := []string{"\\", "\\\\", "\"", "\\\"", "//", "/*", "*/", "#", "http://example.org/a//b", "'", "<", "&", "\u2028", "{", "}", "[", "]", ":", ",", "null", "1e3", "\n", "\t", "\u00e9", "\U0001F9EC", "-->", "\x00", "\r\n", "\\u003c", "\\u003e", "\\u0026", "\\u2028", "\\n", "\\\\n", "\\t", "\\/", "\\x", "%5C", "&lt;", "&amp;"}
		var vals []string
		for _, t := range toks {
			vals = append(vals, "word"+t, "a "+t+" b", t)
		}
		tdir, err := os.MkdirTemp("", "c15t")
		if err != nil {
			panic(err)
		}
		defer os.RemoveAll(tdir)
		for _, a := range vals {
			for _, b := range vals {
				var x poly.Sequence
				x.Sequence = "ACGTACGTAC"
				x.Description = a
				x.Meta = poly.Meta{Name: "n", Definition: "plain", Locus: poly.Locus{Name: "l"}, Other: map[string]string{"COMMENT": a}}
				f := poly.Feature{Name: "f", Type: "gene", Description: b, Attributes: map[string]string{"note": b, a: "key"}}
				f.SequenceLocation = poly.Location{Start: 1, End: 5}
				x.AddFeature(&f)
				x.Features[0].SequenceLocation = poly.Location{Start: 1, End: 5}
				cnt++
				c15judge(r, fmt.Sprintf("description %q, then feature note %q", a, b), []string{"token-pair"}, x, &prev)
				if a == b || strings.HasPrefix(a, "word") && strings.HasPrefix(b, "a ") {
					c15viaFile(r, tdir, fmt.Sprintf("description %q, then feature note %q", a, b), []string{"token-pair"}, x)
				}
			}
			if r.Enough() {
				break
			}
		}
		r.Eval(cnt)
		r.AddStates(cnt)
		r.AddTransitions(cnt)
		r.AddNontrivial(cnt)
		r.Bound("token-pairs", fmt.Sprintf("all ordered pairs of %d values (%d tokens as suffix, infix, whole value) in an early and a late string field", len(vals), len(toks)))
	}})
	// operand order and topology: every order of three spans as the operands of a join (and of a join inside a
	// complement), on linear, circular and undeclared molecules, with and without a complemented operand
	us = append(us, mc.Unit{Name: "join-orders", Weight: 20, Run: func(r *mc.Recorder) {
		var prev c15prev
		var cnt int64
		tdir, err := os.MkdirTemp("", "c15j")
		if err != nil {
			panic(err)
		}
		defer os.RemoveAll(tdir)
		spans := []poly.Location{{Start: 0, End: 3}, {Start: 5, End: 9}, {Start: 10, End: 12}}
		perms := [][]int{{0, 1, 2}, {0, 2, 1}, {1, 0, 2}, {1, 2, 0}, {2, 0, 1}, {2, 1, 0}, {0, 0, 1}, {2, 2}, {1, 0}}
		for _, pm := range perms {
			for topo := 0; topo < 4; topo++ {
				for cflag := 0; cflag < 3; cflag++ {
					var subs []poly.Location
					for i, k := range pm {
						l := spans[k]
						if cflag == 1 && i == 0 {
							l.Complement = true
						}
						subs = append(subs, l)
					}
					loc := poly.Location{Join: true, SubLocations: subs, Complement: cflag == 2}
					var x poly.Sequence
					x.Sequence = "aaacctttggcatgca"
					x.Meta = poly.Meta{Name: "n", Locus: poly.Locus{Name: "l", MoleculeType: "DNA", SequenceLength: "16"}}
					switch topo {
					case 0:
						x.Meta.Locus.Linear = true
					case 1:
						x.Meta.Locus.Circular = true
					case 2:
						x.Meta.Locus.Linear, x.Meta.Locus.Circular = true, true
					}
					for _, typ := range []string{"CDS", "misc_feature"} {
						f := poly.Feature{Name: "f", Type: typ, Attributes: map[string]string{"codon_start": "2"}}
						f.SequenceLocation = poly.Location{Start: 0, End: 1}
						x.AddFeature(&f)
						x.Features[len(x.Features)-1].SequenceLocation = loc
					}
					cas := fmt.Sprintf("join of spans in order %v, topology %d, complement mode %d", pm, topo, cflag)
					cnt++
					c15judge(r, cas, []string{"join-order"}, x, &prev)
					c15viaFile(r, tdir, cas, []string{"join-order"}, x)
				}
			}
		}
		r.Eval(cnt)
		r.AddStates(cnt)
		r.AddTransitions(cnt)
		r.AddNontrivial(cnt)
		r.Bound("join-orders", "9 operand orders (all permutations of three spans, repeats, descending pairs) x 4 topology declarations x 3 complement modes x 2 feature types, in memory and through Write/Read")
	}})
	// every feature count 0..70 and counts around 100, 128, 256, 1000, under several GOMAXPROCS settings
	us = append(us, mc.Unit{Name: "feature-counts", Weight: 30, Run: func(r *mc.Recorder) {
		var prev c15prev
		var cnt int64
		counts := []int{99, 100, 101, 127, 128, 129, 255, 256, 257, 1000}
		for n := 0; n <= 70; n++ {
			counts = append(counts, n)
		}
		withProcs([]int{1, 4, 7}, func(procs int) {
			for _, nf := range counts {
				var x poly.Sequence
				x.Sequence = gbSeq(240, 4)
				x.Meta = poly.Meta{Name: "n", Locus: poly.Locus{Name: "l", MoleculeType: "DNA"}}
				for i := 0; i < nf; i++ {
					f := poly.Feature{Name: fmt.Sprintf("f%d", i), Type: "gene", Attributes: map[string]string{"note": strconv.Itoa(i)}}
					a := (i * 7) % 200
					f.SequenceLocation = poly.Location{Start: a, End: a + 5 + i%20, Complement: i%3 == 1}
					x.AddFeature(&f)
				}
				cnt++
				c15judge(r, fmt.Sprintf("%d features, GOMAXPROCS=%d", nf, procs), []string{"feature-count"}, x, &prev)
			}
		})
		r.Eval(cnt)
		r.AddStates(cnt)
		r.AddTransitions(cnt)
		r.AddNontrivial(cnt)
		r.Bound("feature-counts", "every feature count 0..70 and 99..101, 127..129, 255..257, 1000, GOMAXPROCS 1, 4, 7")
	}})
	// integers at the edges of int32, of exact float64 representation and of int64, in every integer field
	us = append(us, mc.Unit{Name: "integer-edges", Weight: 20, Run: func(r *mc.Recorder) {
		var prev c15prev
		var cnt int64
		edges := []int{0, -1, 1, 1000, 1<<31 - 1, 1 << 31, 1<<32 + 1, 1<<53 - 1, 1 << 53, 1<<53 + 1, 1<<53 + 3, 9007199254740993, -(1<<53 + 1), 123456789012345679, 1000000000000000007, 1<<62 + 1, math.MaxInt64 - 1, math.MaxInt64, math.MinInt64 + 1, math.MinInt64}
		for _, v := range edges {
			for field := 0; field < 6; field++ {
				var x poly.Sequence
				x.Sequence = "ACGTACGTAC"
				x.Meta = poly.Meta{Name: "n", RegionStart: 1, RegionEnd: 10, Size: 9, Locus: poly.Locus{Name: "l"}}
				loc := poly.Location{Start: 1, End: 5}
				sub := poly.Location{Start: 2, End: 3}
				switch field {
				case 0:
					x.Meta.RegionStart = v
				case 1:
					x.Meta.RegionEnd = v
				case 2:
					x.Meta.Size = v
				case 3:
					loc.Start = v
				case 4:
					loc.End = v
				case 5:
					sub.End = v
				}
				f := poly.Feature{Name: "f", Type: "gene"}
				if field == 5 {
					loc = poly.Location{Join: true, SubLocations: []poly.Location{{Start: 0, End: 1}, sub}}
				}
				f.SequenceLocation = poly.Location{Start: 1, End: 2}
				x.AddFeature(&f)
				x.Features[0].SequenceLocation = loc // the coordinates are data of their own: they must survive as they are
				cnt++
				c15judge(r, fmt.Sprintf("integer %d in field %s", v, []string{"Meta.RegionStart", "Meta.RegionEnd", "Meta.Size", "Location.Start", "Location.End", "a nested Location.End"}[field]), []string{"integer-edge"}, x, &prev)
			}
		}
		r.Eval(cnt)
		r.AddStates(cnt)
		r.AddTransitions(cnt)
		r.AddNontrivial(cnt)
		r.Bound("integer-edges", fmt.Sprintf("%d integers (edges of int32, of exact float64 integers, of int64) x 6 integer fields", len(edges)))
	}})
	// parser outputs over generated GenBank files, and GenBank -> JSON -> GenBank
	for sh := -1; sh < gbNumShapes; sh++ {
		sh := sh
		us = append(us, mc.Unit{Name: fmt.Sprintf("genbank/first-shape=%d", sh), Weight: 80, Run: func(r *mc.Recorder) {
			var prev c15prev
			var cnt int64
			roots := [][]int{{0}}
			if sh >= 0 {
				roots = [][]int{{1, sh}, {2, sh}}
			}
			for _, rt := range roots {
				st := mc.Explore(mc.Options{DevBound: 1, PreemptBound: -1, Deadline: r.TimeUp, Root: rt}, func(c *mc.Ctx) bool {
					var tags []string
					rec := gbGenRecord(c, gbGenOpts{maxFeatures: 2, lengths: []int{120, 1, 61}}, 0, &tags)
					var x poly.Sequence
					ok := true
					if p := catch(func() { x = genbank.Parse([]byte(gbWrite(rec))) }); p != "" {
						ok = false
					} else {
						// gate on C01: only records the parser read as stated
						if x.Sequence != rec.seq || len(x.Features) != len(rec.feats) {
							ok = false
						}
						for i := range x.Features {
							if ok && x.Features[i].GbkLocationString != rec.feats[i].loc {
								ok = false
							}
						}
					}
					if !ok {
						r.Skip(1)
						return true
					}
					cas := "parsed GenBank: features=" + fmt.Sprint(gbFeatureTags15(tags)) + " " + c.Describe()
					cnt++
					c15judge(r, cas, tags, x, &prev)
					// GenBank -> JSON -> GenBank equals GenBank -> GenBank
					var direct, via []byte
					if p := catch(func() {
						direct = genbank.Build(x)
						js, _ := json.Marshal(x)
						via = genbank.Build(polyjson.Parse(js))
					}); p != "" {
						r.Failf("no-panic", cas, tags, "text", "panic: "+p)
					} else if string(direct) != string(via) {
						r.Failf("format-conversion-same-text", cas, tags, "Build(Parse(x)) == Build(ParseJSON(Marshal(Parse(x))))", c3firstDiff15(string(direct), string(via)))
					}
					return true
				})
				r.AddTransitions(int64(st.Transitions))
			}
			r.Eval(cnt)
			r.AddStates(cnt)
			r.AddNontrivial(cnt)
			r.Bound("genbank", "every record the GenBank parser returns for generated files (feature lists <=2 over 13 shapes, 1 further deviation)")
		}})
	}
	// parser outputs over generated GFF files
	us = append(us, mc.Unit{Name: "gff", Weight: 100, Run: func(r *mc.Recorder) {
		var prev c15prev
		var cnt int64
		for _, n := range []int{1, 5, 69, 70, 71, 141} {
			for nf := 0; nf <= 3; nf++ {
				for _, width := range []int{70, 60, 0} {
					rec := c14rec{name: "chr1", rstart: 1, rend: n, seq: c14seq(n)}
					for i := 0; i < nf; i++ {
						f := c14feat{seqid: "chr1", source: "src", typ: "gene", start: 1, end: n, score: []string{".", "0.5"}[i%2], strand: []string{"+", "-", "."}[i%3], phase: []string{".", "0", "1"}[i%3], attrs: map[string]string{}}
						for k := 0; k <= i*2 && k < len(c14attrMenu); k++ {
							f.attrs[c14attrMenu[k][0]] = c14attrMenu[k][1]
						}
						rec.feats = append(rec.feats, f)
					}
					text := c14write(rec, width, true, true)
					if n > 5 && nf > 0 && width == 60 {
						// a file that carries the bases of a sub-region only: features keep their coordinates
						short := rec
						short.seq = rec.seq[:n/2]
						text = c14write(short, width, true, true)
						rec = short
					}
					var x poly.Sequence
					if p := catch(func() { x = gff.Parse(text) }); p != "" || x.Sequence != rec.seq || len(x.Features) != nf {
						r.Skip(1) // upstream (C14)
						continue
					}
					cas := fmt.Sprintf("parsed GFF: len=%d features=%d width=%d", n, nf, width)
					cnt++
					c15judge(r, cas, nil, x, &prev)
					var direct, via []byte
					if p := catch(func() {
						direct = gff.Build(x)
						js, _ := json.Marshal(x)
						via = gff.Build(polyjson.Parse(js))
					}); p != "" {
						r.Failf("no-panic", cas, nil, "text", "panic: "+p)
					} else if string(direct) != string(via) {
						r.Failf("format-conversion-same-text", cas, nil, "gff.Build(Parse(x)) == gff.Build(ParseJSON(Marshal(Parse(x))))", c3firstDiff15(string(direct), string(via)))
					}
				}
			}
		}
		r.Eval(cnt)
		r.AddStates(cnt)
		r.AddTransitions(cnt)
		r.AddNontrivial(cnt)
	}})
	// Write / Read through files
	us = append(us, mc.Unit{Name: "files", Weight: 10, Run: func(r *mc.Recorder) {
		dir, err := os.MkdirTemp("", "c15")
		if err != nil {
			panic(err)
		}
		defer os.RemoveAll(dir)
		var xs []poly.Sequence
		mc.Explore(mc.Options{DevBound: 1, PreemptBound: -1}, func(c *mc.Ctx) bool {
			var tags []string
			xs = append(xs, c15structured(c, &tags))
			return len(xs) < 60
		})
		var cnt int64
		for i, x := range xs {
			p := filepath.Join(dir, fmt.Sprintf("s%d.json", i))
			var y poly.Sequence
			if pn := catch(func() { polyjson.Write(x, p); y = polyjson.Read(p) }); pn != "" {
				r.Failf("no-panic", "Write/Read via file", nil, "a value", pn)
				continue
			}
			cnt++
			if !reflect.DeepEqual(c15norm(x), c15norm(y)) {
				r.Failf("equal-in-every-field", fmt.Sprintf("Write/Read via file, value %d", i), nil, "equal value", "differs")
			}
		}
		// writing a shorter value over a longer one at the same path
		if len(xs) > 2 {
			long := xs[0]
			long.Meta.Definition = c3lorem15 + c3lorem15
			short := poly.Sequence{Sequence: "acgt"}
			p := filepath.Join(dir, "same.json")
			var y poly.Sequence
			if pn := catch(func() { polyjson.Write(long, p); polyjson.Write(short, p); y = polyjson.Read(p) }); pn != "" {
				r.Failf("no-panic", "Write long, Write short to the same path, Read", nil, "a value", pn)
			} else if !reflect.DeepEqual(c15norm(short), c15norm(y)) {
				r.Failf("equal-in-every-field", "Write of a long value, then Write of a short value to the same path, then Read", nil, fmt.Sprintf("%+v", c15norm(short)), fmt.Sprintf("%+v", c15norm(y)))
			}
			cnt++
		}
		r.Eval(cnt)
		r.AddStates(cnt)
		r.AddTransitions(cnt)
	}})
	return us
}

const c3lorem15 = "lorem ipsum dolor sit amet consectetur adipiscing elit sed do eiusmod tempor incididunt ut labore et dolore magna aliqua "

func gbFeatureTags15(tags []string) []string {
	var o []string
	for _, t := range tags {
		if len(t) > 8 && t[:8] == "feature:" {
			o = append(o, t[8:])
		}
	}
	return o
}

func c3firstDiff15(a, b string) string {
	n := len(a)
	if len(b) < n {
		n = len(b)
	}
	for i := 0; i < n; i++ {
		if a[i] != b[i] {
			lo := i - 30
			if lo < 0 {
				lo = 0
			}
			return fmt.Sprintf("first difference at byte %d: %q vs %q", i, a[lo:min(len(a), i+30)], b[lo:min(len(b), i+30)])
		}
	}
	return fmt.Sprintf("lengths %d vs %d", len(a), len(b))
}

func init() {
	mc.Register(&mc.Harness{ID: "C15", Units: c15units,
		Rule:   "distinct annotated sequences: assembled values with a deviation bound over text kinds, collection states and location shapes, plus every record the GenBank and GFF parsers return over generated files; each serialised, read back, compared in every field, re-linked features evaluated, and re-checked after the following Parse; non-trivial = all",
		Assume: []string{"absent and empty collections are not distinguished (the statement does not)", "strings are valid UTF-8", "encoding/json is trusted"}})
}
