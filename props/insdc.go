package props

import (
	"fmt"
	"strconv"
	"strings"

	"github.com/TimothyStiles/poly"
)

// Oracle for INSDC feature locations: expression trees, their text, a strict
// recursive-descent reader of the grammar, and an evaluator.
//
//	location := span | single | "complement(" location ")" | "join(" location {"," location} ")"
//	span     := ["<"] n ".." [">"] m          single := n

type locKind int

const (
	lkSpan locKind = iota
	lkSingle
	lkComp
	lkJoin
)

type locExpr struct {
	kind   locKind
	i, j   int // 1-based inclusive
	p5, p3 bool
	subs   []*locExpr
}

func (e *locExpr) text() string {
	switch e.kind {
	case lkSpan:
		s := ""
		if e.p5 {
			s = "<"
		}
		s += strconv.Itoa(e.i) + ".."
		if e.p3 {
			s += ">"
		}
		return s + strconv.Itoa(e.j)
	case lkSingle:
		return strconv.Itoa(e.i)
	case lkComp:
		return "complement(" + e.subs[0].text() + ")"
	}
	var p []string
	for _, s := range e.subs {
		p = append(p, s.text())
	}
	return "join(" + strings.Join(p, ",") + ")"
}

var insdcComp = map[byte]byte{'a': 't', 'c': 'g', 'g': 'c', 't': 'a', 'A': 'T', 'C': 'G', 'G': 'C', 'T': 'A'}

func insdcRC(s string) string {
	o := make([]byte, len(s))
	for i := 0; i < len(s); i++ {
		c, ok := insdcComp[s[i]]
		if !ok {
			c = s[i]
		}
		o[len(s)-1-i] = c
	}
	return string(o)
}

// eval: the bases the location denotes on parent.
func (e *locExpr) eval(parent string) string {
	switch e.kind {
	case lkSpan:
		return parent[e.i-1 : e.j]
	case lkSingle:
		return parent[e.i-1 : e.i]
	case lkComp:
		return insdcRC(e.subs[0].eval(parent))
	}
	var b strings.Builder
	for _, s := range e.subs {
		b.WriteString(s.eval(parent))
	}
	return b.String()
}

// leaves in textual order with their partial flags.
func (e *locExpr) leafFlags() string {
	switch e.kind {
	case lkSpan, lkSingle:
		return fmt.Sprintf("[%d-%d %v %v]", e.i, map[bool]int{true: e.i, false: e.j}[e.kind == lkSingle], e.p5, e.p3)
	}
	var b strings.Builder
	for _, s := range e.subs {
		b.WriteString(s.leafFlags())
	}
	return b.String()
}

func (e *locExpr) ops() int {
	n := 0
	if e.kind == lkComp || e.kind == lkJoin {
		n = 1
	}
	for _, s := range e.subs {
		n += s.ops()
	}
	return n
}

// toPoly: the structure poly uses for the same location (complement is a flag
// on the complemented node; a single base is a one-base span).
func (e *locExpr) toPoly() poly.Location {
	switch e.kind {
	case lkSpan:
		return poly.Location{Start: e.i - 1, End: e.j, FivePrimePartial: e.p5, ThreePrimePartial: e.p3}
	case lkSingle:
		return poly.Location{Start: e.i - 1, End: e.i}
	case lkComp:
		l := e.subs[0].toPoly()
		l.Complement = !l.Complement // the complement of a complemented node is the node itself (as the parser builds it)
		return l
	}
	l := poly.Location{Join: true}
	for _, s := range e.subs {
		l.SubLocations = append(l.SubLocations, s.toPoly())
	}
	return l
}

// insdcParse: strict reader.
func insdcParse(s string) (*locExpr, error) {
	p := &insdcParser{s: s}
	e, err := p.location()
	if err != nil {
		return nil, err
	}
	if p.pos != len(s) {
		return nil, fmt.Errorf("trailing %q at %d", s[p.pos:], p.pos)
	}
	return e, nil
}

type insdcParser struct {
	s   string
	pos int
}

func (p *insdcParser) number() (int, error) {
	st := p.pos
	for p.pos < len(p.s) && p.s[p.pos] >= '0' && p.s[p.pos] <= '9' {
		p.pos++
	}
	if st == p.pos {
		return 0, fmt.Errorf("number expected at %d in %q", st, p.s)
	}
	return strconv.Atoi(p.s[st:p.pos])
}

func (p *insdcParser) lit(x string) bool {
	if strings.HasPrefix(p.s[p.pos:], x) {
		p.pos += len(x)
		return true
	}
	return false
}

func (p *insdcParser) location() (*locExpr, error) {
	if p.lit("complement(") {
		e, err := p.location()
		if err != nil {
			return nil, err
		}
		if !p.lit(")") {
			return nil, fmt.Errorf("')' expected at %d in %q", p.pos, p.s)
		}
		return &locExpr{kind: lkComp, subs: []*locExpr{e}}, nil
	}
	if p.lit("join(") {
		j := &locExpr{kind: lkJoin}
		for {
			e, err := p.location()
			if err != nil {
				return nil, err
			}
			j.subs = append(j.subs, e)
			if p.lit(",") {
				continue
			}
			if p.lit(")") {
				break
			}
			return nil, fmt.Errorf("',' or ')' expected at %d in %q", p.pos, p.s)
		}
		if len(j.subs) < 2 {
			return nil, fmt.Errorf("join with one operand in %q", p.s)
		}
		return j, nil
	}
	e := &locExpr{kind: lkSpan}
	e.p5 = p.lit("<")
	n, err := p.number()
	if err != nil {
		return nil, err
	}
	e.i = n
	if !p.lit("..") {
		if e.p5 {
			return nil, fmt.Errorf("'..' expected after partial start in %q", p.s)
		}
		e.kind, e.j = lkSingle, n
		return e, nil
	}
	e.p3 = p.lit(">")
	m, err := p.number()
	if err != nil {
		return nil, err
	}
	e.j = m
	if e.i < 1 || e.j < e.i {
		return nil, fmt.Errorf("bad span %d..%d in %q", e.i, e.j, p.s)
	}
	return e, nil
}

// locShapes: every tree shape with exactly `ops` operators and `leaves` leaves
// (join has 2..6 operands). Leaves
// are placeholders (kind lkSpan with i = 0) to be filled by the caller.
func locShapes(ops, leaves int, noComp bool) []*locExpr {
	var out []*locExpr
	if ops == 0 {
		if leaves == 1 {
			out = append(out, &locExpr{kind: lkSpan})
		}
		return out
	}
	// complement may stand directly inside complement (complement(complement(x)) is x again); noComp is kept in the
	// signature for the callers and no longer excludes anything
	_ = noComp
	for _, t := range locShapes(ops-1, leaves, false) {
		out = append(out, &locExpr{kind: lkComp, subs: []*locExpr{t}})
	}
	for k := 2; k <= 6 && k <= leaves; k++ {
		// distribute ops-1 operators and `leaves` leaves over k ordered operands
		var rec func(idx, o, l int, cur []*locExpr)
		rec = func(idx, o, l int, cur []*locExpr) {
			if idx == k-1 {
				for _, t := range locShapes(o, l, false) {
					out = append(out, &locExpr{kind: lkJoin, subs: append(append([]*locExpr{}, cur...), t)})
				}
				return
			}
			for oo := 0; oo <= o; oo++ {
				for ll := 1; ll <= l-(k-1-idx); ll++ {
					for _, t := range locShapes(oo, ll, false) {
						rec(idx+1, o-oo, l-ll, append(cur, t))
					}
				}
			}
		}
		rec(0, ops-1, leaves, nil)
	}
	return out
}

// clone with leaves replaced in order by the given leaves.
func (e *locExpr) fill(leaves []*locExpr, next *int) *locExpr {
	if e.kind == lkSpan || e.kind == lkSingle {
		l := *leaves[*next]
		*next++
		return &l
	}
	c := &locExpr{kind: e.kind}
	for _, s := range e.subs {
		c.subs = append(c.subs, s.fill(leaves, next))
	}
	return c
}

func (e *locExpr) countLeaves() int {
	if e.kind == lkSpan || e.kind == lkSingle {
		return 1
	}
	n := 0
	for _, s := range e.subs {
		n += s.countLeaves()
	}
	return n
}

// locLeaves: the 21 spans and 6 single bases over a parent of length n.
func locLeaves(n int) []*locExpr {
	var out []*locExpr
	for i := 1; i <= n; i++ {
		for j := i; j <= n; j++ {
			out = append(out, &locExpr{kind: lkSpan, i: i, j: j})
		}
	}
	for i := 1; i <= n; i++ {
		out = append(out, &locExpr{kind: lkSingle, i: i, j: i})
	}
	return out
}
