//go:build c18

package props

import (
	"fmt"
	"math"
	"sort"
	"strings"
	"verif/vrand"

	"github.com/TimothyStiles/poly/transform/codon"

	"verif/mc"
)

// c18table: private table of genetic code id in which the synonyms of one amino
// acid carry the given counts and every other codon count 1, installed by
// OptimizeTable on a synthetic coding sequence (so it is a table "re-weighted
// from a coding sequence").
func c18table(id int, cods []string, counts []int) codon.Table {
	t := deepCopyTable(codon.GetCodonTable(id))
	cnt := map[string]int{}
	for _, c := range allCodons {
		cnt[c] = 1
	}
	for i, c := range cods {
		cnt[c] = counts[i]
	}
	return t.OptimizeTable(seqForCounts(cnt))
}

// c18reversed: the same table with its amino acids and each amino acid's codons listed in reverse order.
func c18reversed(t codon.Table) codon.Table {
	c := deepCopyTable(t)
	for i, j := 0, len(c.AminoAcids)-1; i < j; i, j = i+1, j-1 {
		c.AminoAcids[i], c.AminoAcids[j] = c.AminoAcids[j], c.AminoAcids[i]
	}
	for k := range c.AminoAcids {
		cs := c.AminoAcids[k].Codons
		for i, j := 0, len(cs)-1; i < j; i, j = i+1, j-1 {
			cs[i], cs[j] = cs[j], cs[i]
		}
	}
	return c
}

func c18vectors(k int, vals []int) [][]int {
	var out [][]int
	idx := make([]int, k)
	for {
		v := make([]int, k)
		tot := 0
		for i, j := range idx {
			v[i] = vals[j]
			tot += v[i]
		}
		if tot > 0 {
			out = append(out, v)
		}
		i := 0
		for i < k {
			idx[i]++
			if idx[i] < len(vals) {
				break
			}
			idx[i] = 0
			i++
		}
		if i == k {
			return out
		}
	}
}

func c18cutoffs(a, b []int) []float64 {
	set := map[float64]bool{-1: true, -1e-9: true, 0: true, 0.1: true, 0.5: true, 1: true, 1 + 1e-9: true, 2: true, -0.00005: true, 1.00005: true}
	for _, v := range [][]int{a, b} {
		tot := 0
		for _, x := range v {
			tot += x
		}
		for _, x := range v {
			s := float64(x) / float64(tot)
			set[s] = true
			if s-1e-6 >= 0 {
				set[s-1e-6] = true
			}
			if s+1e-6 <= 1 {
				set[s+1e-6] = true
			}
		}
	}
	var out []float64
	for c := range set {
		out = append(out, c)
	}
	sort.Float64s(out)
	return out
}

func c18units(tier string) []mc.Unit {
	var us []mc.Unit
	thorough := tier == "thorough"
	ids := []int{1, 2, 11}
	if thorough {
		ids = ncbiIDs()
	}
	type target struct {
		letter string
		k      int
		vals   []int
	}
	targets := []target{{"F", 2, []int{0, 1, 2, 3, 4, 5, 6}}, {"I", 3, []int{0, 1, 2, 3}}, {"V", 4, []int{0, 1, 3}}}
	if thorough {
		targets[2].vals = []int{0, 1, 2, 3}
	}
	if thorough {
		targets = append(targets, target{"L", 6, []int{0, 1, 2}})
	}
	for _, id := range ids {
		for _, tg := range targets {
			id, tg := id, tg
			if tg.k == 4 && !thorough && id != 1 {
				continue
			}
			if tg.k == 6 && id != 1 && id != 11 {
				continue
			}
			vecs := c18vectors(tg.k, tg.vals)
			// split by the first vector in slices so that units balance
			const slice = 16
			for lo := 0; lo < len(vecs); lo += slice {
				lo := lo
				hi := lo + slice
				if hi > len(vecs) {
					hi = len(vecs)
				}
				us = append(us, mc.Unit{Name: fmt.Sprintf("code=%d/%s/%d-%d", id, tg.letter, lo, hi), Serial: true, Weight: len(vecs) * (hi - lo) / 50, Run: func(r *mc.Recorder) {
					base := viewOf(codon.GetCodonTable(id))
					// the synonyms of the target letter under this genetic code (codes differ)
					cods := base.synonyms()[tg.letter]
					if len(cods) != tg.k {
						// this code assigns a different number of codons to the letter: use its own count with the first k values
						r.Bound("skipped/"+fmt.Sprint(id, tg.letter), fmt.Sprintf("code %d has %d codons for %s", id, len(cods), tg.letter))
						return
					}
					pristineDefault := viewOf(codon.GetCodonTable(id)).weights() == strings.Repeat("1,", 64)
					_ = pristineDefault
					var cnt, nt int64
					tabs := make([]codon.Table, len(vecs))
					views := make([]tableView, len(vecs))
					for i := range vecs {
						tabs[i] = c18table(id, cods, vecs[i])
						views[i] = viewOf(tabs[i])
					}
					for ai := lo; ai < hi; ai++ {
						ta, va := tabs[ai], views[ai]
						for bi := range vecs {
							tb, vb := tabs[bi], views[bi]
							if (ai+bi)%2 == 1 {
								// the order of amino acids and of codons inside a table is not part of the statement:
								// the same second table, listed the other way round
								tb = c18reversed(tb)
							}
							cas := fmt.Sprintf("code %d %s counts %v and %v", id, tg.letter, vecs[ai], vecs[bi])
							// --- add
							var sum codon.Table
							if p := catch(func() { sum = codon.AddCodonTable(ta, tb) }); p != "" {
								r.Failf("no-panic", cas+" add", nil, "a table", "panic: "+p)
							} else {
								vs := viewOf(sum)
								for _, c := range allCodons {
									if w, ok := vs.w[c]; !ok || w != va.w[c]+vb.w[c] || vs.letter[c] != va.letter[c] {
										r.Failf("add-sums", cas, nil, fmt.Sprintf("%s: %s %d", c, va.letter[c], va.w[c]+vb.w[c]), fmt.Sprintf("%s: %s %d (present=%v)", c, vs.letter[c], w, ok))
										break
									}
								}
								if vs.dup != "" || len(vs.w) != 64 {
									r.Failf("add-sums", cas, nil, "64 codons once each", fmt.Sprintf("%d codons, duplicate %q", len(vs.w), vs.dup))
								}
								if !sameStrings(sum.StartCodons, ta.StartCodons) || !sameStrings(sum.StopCodons, ta.StopCodons) {
									r.Failf("keeps-start-stop", cas+" add", nil, fmt.Sprint(ta.StartCodons, ta.StopCodons), fmt.Sprint(sum.StartCodons, sum.StopCodons))
								}
							}
							cnt++
							// --- compromise
							for _, cut := range c18cutoffs(vecs[ai], vecs[bi]) {
								var ct, ct2 codon.Table
								var err, err2 error
								if p := catch(func() {
									ct, err = codon.CompromiseCodonTable(ta, tb, cut)
									ct2, err2 = codon.CompromiseCodonTable(tb, ta, cut)
								}); p != "" {
									r.Failf("no-panic", fmt.Sprintf("%s cut-off %g", cas, cut), nil, "a table or an error", "panic: "+p)
									continue
								}
								cnt++
								cc := fmt.Sprintf("%s cut-off %.10g", cas, cut)
								if cut < 0 || cut > 1 {
									if err == nil || err2 == nil {
										r.Failf("cutoff-range-rejected", cc, nil, "error", "no error")
									}
									continue
								}
								if err != nil || err2 != nil {
									r.Failf("cutoff-range-accepted", cc, nil, "a table", fmt.Sprint(err, err2))
									continue
								}
								vc, vc2 := viewOf(ct), viewOf(ct2)
								if msg := compromiseCheck(va, vb, vc, cut); msg != "" {
									r.Failf("compromise-rule", cc, nil, "mean of the two shares x 10000 (+-1) or 0 below the cut-off", msg)
								}
								if vc.weights() != vc2.weights() {
									r.Failf("compromise-symmetric", cc, nil, vc.weights(), vc2.weights())
								}
								if vc.letters() != va.letters() || len(vc.w) != 64 || vc.dup != "" {
									r.Failf("keeps-assignment", cc, nil, va.letters(), vc.letters())
								}
								if !sameStrings(ct.StartCodons, ta.StartCodons) || !sameStrings(ct.StopCodons, ta.StopCodons) {
									r.Failf("keeps-start-stop", cc, nil, fmt.Sprint(ta.StartCodons, ta.StopCodons), fmt.Sprint(ct.StartCodons, ct.StopCodons))
								}
								nt++
							}
						}
					}
					r.Eval(cnt)
					r.AddStates(cnt)
					r.AddTransitions(cnt)
					r.AddNontrivial(nt)
					if lo == 0 && id == 1 {
						r.Sample(fmt.Sprintf("code 1, amino acid %s (%v): all pairs of count vectors over %v, add + compromise at cut-offs {-1,-1e-9,0,every realised share and +-1e-6,0.1,0.5,1,1+1e-9,2}", tg.letter, cods, tg.vals))
					}
					r.Bound("pairs/"+tg.letter, fmt.Sprintf("all ordered pairs of %d count vectors over %v", len(vecs), tg.vals))
				}})
			}
		}
	}
	// a gene optimised with the compromise table never uses a codon rarer than the cut-off in either organism:
	// Optimize on the compromise table under EVERY answer of the draw (about 10000 answers per call, the weights
	// being on the 10000 scale), for all pairs over a small count set
	for _, id := range ids {
		id := id
		if thorough && id != 1 && id != 2 && id != 11 && id != 4 {
			continue
		}
		us = append(us, mc.Unit{Name: fmt.Sprintf("optimize-on-compromise/code=%d", id), Serial: true, Weight: 400, Run: func(r *mc.Recorder) {
			base := viewOf(codon.GetCodonTable(id))
			var cnt int64
			for _, tg := range []target{{"F", 2, []int{0, 1, 2, 9}}, {"V", 4, []int{0, 1, 9}}} {
				cods := base.synonyms()[tg.letter]
				if len(cods) != tg.k {
					continue
				}
				vecs := c18vectors(tg.k, tg.vals)
				if tg.k == 4 {
					// every third vector keeps the run short; the pairs are still all ordered pairs of the kept vectors
					var kept [][]int
					for i, v := range vecs {
						if i%tier2(tier, 11, 5) == 0 {
							kept = append(kept, v)
						}
					}
					vecs = kept
				}
				for _, a := range vecs {
					ta := c18table(id, cods, a)
					va := viewOf(ta)
					for _, b := range vecs {
						tb := c18table(id, cods, b)
						vb := viewOf(tb)
						ta_, tb_ := 0, 0
						for _, c := range cods {
							ta_ += va.w[c]
							tb_ += vb.w[c]
						}
						for _, cut := range []float64{0.1, 0.34} {
							ct, err := codon.CompromiseCodonTable(ta, tb, cut)
							if err != nil {
								continue
							}
							cc := fmt.Sprintf("code %d %s counts %v and %v cut-off %g", id, tg.letter, a, b, cut)
							res, _ := optimizeAllAnswers(tg.letter, ct)
							for dna, n := range res {
								cnt += int64(n)
								if strings.HasPrefix(dna, "panic:") {
									r.Failf("no-panic", cc+" optimize", nil, "codon or error", dna)
									continue
								}
								if strings.HasPrefix(dna, "error:") {
									continue
								}
								sa, sb := float64(va.w[dna])/float64(ta_), float64(vb.w[dna])/float64(tb_)
								if va.letter[dna] != tg.letter || sa < cut-1e-4 || sb < cut-1e-4 {
									r.Failf("optimized-gene-respects-cutoff", cc, nil, fmt.Sprintf("a %s codon with share >= %g in both tables", tg.letter, cut), fmt.Sprintf("%s (shares %.4f, %.4f)", dna, sa, sb))
								}
							}
						}
					}
				}
			}
			r.Eval(cnt)
			r.AddStates(cnt)
			r.AddTransitions(cnt)
			r.AddNontrivial(cnt)
		}})
	}
	// large weights: tables assembled directly with counts up to 2^31 (shares and the cut-off comparison must not
	// depend on the magnitude of the counts), cut-offs a little below and above the realised shares
	for _, id := range []int{1, 11} {
		id := id
		us = append(us, mc.Unit{Name: fmt.Sprintf("large-weights/code=%d", id), Serial: true, Weight: 60, Run: func(r *mc.Recorder) {
			base := viewOf(codon.GetCodonTable(id))
			var cnt int64
			direct := func(cods []string, w []int) codon.Table {
				t := deepCopyTable(codon.GetCodonTable(id))
				for i := range t.AminoAcids {
					for j := range t.AminoAcids[i].Codons {
						for k, c := range cods {
							if t.AminoAcids[i].Codons[j].Triplet == c {
								t.AminoAcids[i].Codons[j].Weight = w[k]
							}
						}
					}
				}
				return t
			}
			for _, letter := range []string{"F", "I"} {
				cods := base.synonyms()[letter]
				for _, T := range []int{9973, 214749, 519999, 1000003, 429497*5 + 1, 1<<31 - 1, 1000000007} {
					for _, share := range []float64{0.02, 0.1, 0.25, 0.4808, 0.5, 0.9} {
						w0 := int(share * float64(T))
						for _, d := range []int{-1, 0, 1} {
							a := make([]int, len(cods))
							a[0] = w0 + d
							a[1] = T - a[0]
							if a[0] < 0 || a[1] < 0 {
								continue
							}
							for _, b := range [][]int{{61, 39, 0}, {1, 1, 1}, {a[1], a[0], 0}} {
								b = b[:len(cods)]
								ta, tb := direct(cods, a), direct(cods, b)
								va, vb := viewOf(ta), viewOf(tb)
								sa := float64(a[0]) / float64(T)
								for _, rel := range []float64{-0.04, -0.01, -0.001, 0.001, 0.01, 0.03, 0.045} {
									cut := sa * (1 + rel)
									if cut < 0 || cut > 1 {
										continue
									}
									for _, sw := range []bool{false, true} {
										x, y, vx, vy := ta, tb, va, vb
										if sw {
											x, y, vx, vy = tb, ta, vb, va
										}
										var ct codon.Table
										var err error
										cas := fmt.Sprintf("code %d %s counts %v and %v (swapped=%v) cut-off %.6f", id, letter, a, b, sw, cut)
										if p := catch(func() { ct, err = codon.CompromiseCodonTable(x, y, cut) }); p != "" || err != nil {
											r.Failf("compromise-accepted", cas, []string{"large"}, "a table", fmt.Sprint(err, p))
											continue
										}
										cnt++
										if msg := compromiseCheck(vx, vy, viewOf(ct), cut); msg != "" {
											r.Failf("compromise-mean-or-zero", cas, []string{"large"}, "mean of the shares x 10000 (+-1), or 0 below the cut-off", msg)
										}
									}
								}
								var at codon.Table
								if p := catch(func() { at = codon.AddCodonTable(ta, tb) }); p != "" {
									r.Failf("add-sums", fmt.Sprintf("code %d %s counts %v and %v", id, letter, a, b), []string{"large"}, "a table", "panic: "+p)
									continue
								}
								cnt++
								vt := viewOf(at)
								for _, c := range allCodons {
									if vt.w[c] != va.w[c]+vb.w[c] {
										r.Failf("add-sums", fmt.Sprintf("code %d %s counts %v and %v", id, letter, a, b), []string{"large"}, fmt.Sprintf("%s: %d", c, va.w[c]+vb.w[c]), fmt.Sprint(vt.w[c]))
										break
									}
								}
							}
						}
					}
				}
			}
			r.Eval(cnt)
			r.AddStates(cnt)
			r.AddTransitions(cnt)
			r.AddNontrivial(cnt)
			r.Bound("large-weights", "counts of magnitude 10^4..2^31 at six shares (+-1 count) x three partner tables x seven cut-offs relative to the share, both argument orders")
		}})
	}
	// homopolymer and other single-residue runs: proteins L^k (k = 1..10) on compromise tables in which one codon of L
	// survives the cut-off; default answers for every draw, and for one amino acid every answer of one draw (one deviation) at k = 5
	for _, id := range []int{1, 2, 4, 11, 13} { // 2, 13: two codons for M, both of them start codons; 4: two for W
		id := id
		us = append(us, mc.Unit{Name: fmt.Sprintf("optimize-runs/code=%d", id), Serial: true, Weight: 200, Run: func(r *mc.Recorder) {
			base := viewOf(codon.GetCodonTable(id))
			var cnt int64
			syn := base.synonyms()
			var letters []string
			for l, cods := range syn {
				if len(cods) >= 2 && l != "*" {
					letters = append(letters, l)
				}
			}
			sort.Strings(letters)
			for _, l := range letters {
				cods := syn[l]
				for _, survivor := range []int{0, len(cods) - 1} {
					a, b := make([]int, len(cods)), make([]int, len(cods))
					for i := range cods {
						a[i], b[i] = 1, 2
					}
					a[survivor], b[survivor] = 10*len(cods), 8*len(cods)
					ta, tb := c18table(id, cods, a), c18table(id, cods, b)
					va, vb := viewOf(ta), viewOf(tb)
					sumA, sumB := 0, 0
					for _, c := range cods {
						sumA += va.w[c]
						sumB += vb.w[c]
					}
					const cut = 0.25
					ct, err := codon.CompromiseCodonTable(ta, tb, cut)
					if err != nil {
						continue
					}
					for k := 1; k <= 12; k++ {
						protein := strings.Repeat(l, k)
						if k == 11 {
							protein = "M" + strings.Repeat(l, 3) // a gene: start, then the run
						}
						if k == 12 {
							protein = strings.Repeat(l, 2) + "*"
						}
						if k > 10 {
							if _, ok := syn["M"]; !ok {
								continue
							}
						}
						dev := 0
						if k == 5 && l == letters[0] && survivor == 0 {
							dev = 1
						}
						vrand.Enabled, vrand.Bounded = true, true
						mc.Explore(mc.Options{DevBound: dev, PreemptBound: -1, MaxExecs: 200000}, func(c *mc.Ctx) bool {
							var dna string
							var err error
							p := catch(func() { dna, err = codon.Optimize(protein, ct) })
							cnt++
							cc := fmt.Sprintf("code %d %s counts %v and %v cut-off %g, protein %s, answers %v", id, l, a, b, cut, protein, c.Choices())
							if p != "" {
								r.Failf("no-panic", cc, []string{"runs"}, "a gene or an error", "panic: "+p)
								return false
							}
							if err != nil {
								return true
							}
							if len(dna) != 3*len(protein) {
								r.Failf("optimized-gene-respects-cutoff", cc, []string{"runs"}, fmt.Sprintf("%d bases", 3*len(protein)), q(dna))
								return false
							}
							for i := 0; i < len(dna); i += 3 {
								cd := dna[i : i+3]
								res := protein[i/3 : i/3+1]
								tA, tB := 0, 0
								for _, c := range syn[res] {
									tA += va.w[c]
									tB += vb.w[c]
								}
								sa, sb := float64(va.w[cd])/float64(tA), float64(vb.w[cd])/float64(tB)
								if va.letter[cd] != res || sa < cut-1e-4 || sb < cut-1e-4 {
									r.Failf("optimized-gene-respects-cutoff", cc, []string{"runs"}, fmt.Sprintf("%s codons with share >= %g in both tables", res, cut), fmt.Sprintf("%s at residue %d (shares %.4f, %.4f) in %s", cd, i/3+1, sa, sb, dna))
									return false
								}
							}
							return !r.Enough()
						})
						vrand.Enabled, vrand.Bounded = false, false
					}
				}
			}
			r.Eval(cnt)
			r.AddStates(cnt)
			r.AddTransitions(cnt)
			r.AddNontrivial(cnt)
			r.Bound("optimize-runs", "every amino acid with synonyms x first/last codon as sole survivor x proteins L^1..L^10; default answers, plus every answer of one draw for one amino acid at k = 5")
		}})
	}
	us = append(us, historyUnit("api-histories", codonMenu(), 2))
	_ = math.Abs
	return us
}

func init() {
	mc.Register(&mc.Harness{ID: "C18", Units: c18units,
		Rule:   "distinct (genetic code, pair of count vectors, cut-off) combinations enumerated completely per amino acid (the computation is per amino acid); non-trivial = accepted cut-offs on which the compromise rule, symmetry and code preservation were all evaluated",
		Assume: []string{"tables are private copies re-weighted by OptimizeTable from synthetic coding sequences in which every amino acid occurs", "+-1 on the 10000 scale; shares within 1e-4 of the cut-off accepted either way", "Optimize clause evaluated under every answer of the replaced random source"}})
}
