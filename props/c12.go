//go:build c12

package props

import (
	"fmt"
	"strings"

	"github.com/TimothyStiles/poly/seqhash"

	"verif/mc"
)

// leastRotBrute: minimum over all rotations by direct comparison.
func leastRotBrute(s string) string {
	best := s
	d := s + s
	for k := 1; k < len(s); k++ {
		if r := d[k : k+len(s)]; r < best {
			best = r
		}
	}
	return best
}

// leastRotTwoPointer: independent linear-time minimal rotation (two candidate
// starts i, j and a match length k) used for long inputs.
func leastRotTwoPointer(s string) string {
	n := len(s)
	if n == 0 {
		return s
	}
	i, j, k := 0, 1, 0
	for i < n && j < n && k < n {
		a, b := s[(i+k)%n], s[(j+k)%n]
		if a == b {
			k++
			continue
		}
		if a > b {
			i += k + 1
		} else {
			j += k + 1
		}
		if i == j {
			j++
		}
		k = 0
	}
	st := i
	if j < i {
		st = j
	}
	return s[st:] + s[:st]
}

func c12check(r *mc.Recorder, s string, brute bool) {
	var got string
	if p := catch(func() { got = seqhash.RotateSequence(s) }); p != "" {
		r.Failf("no-panic", q(s), nil, "a rotation", "panic: "+p)
		return
	}
	var want string
	if brute {
		want = leastRotBrute(s)
	} else {
		want = leastRotTwoPointer(s)
	}
	if got != want {
		clause := "least"
		if len(got) != len(s) {
			clause = "length"
		} else if !strings.Contains(s+s, got) {
			clause = "is-rotation"
		}
		r.Failf(clause, q(s), nil, q(want), q(got))
	}
}

func c12units(tier string) []mc.Unit {
	var us []mc.Unit
	type ab struct {
		name, alpha string
		q, t        int
	}
	for _, a := range []ab{{"AB", "AB", 14, 20}, {"ABC", "ABC", 9, 13}, {"ACGT", "ACGT", 7, 11}, {"bytes", "\x00\x7f\x80\xff", 5, 7}, {"ATU", "ATU", 9, 12}, {"acgtACGT", "aAcCgGtT", 5, 6}} {
		a := a
		maxn := tier2(tier, a.q, a.t)
		for n := 0; n <= maxn; n++ {
			n := n
			// split long lengths by the first two letters so units are similar in size
			var prefixes []string
			if pow(len(a.alpha), n) > 200000 {
				for _, x := range a.alpha {
					for _, y := range a.alpha {
						prefixes = append(prefixes, string([]byte{byte(x), byte(y)}))
					}
				}
			} else {
				prefixes = []string{""}
			}
			for _, pre := range prefixes {
				pre := pre
				us = append(us, mc.Unit{Name: fmt.Sprintf("exh/%s/n=%d/pre=%x", a.name, n, pre), Weight: int(pow(len(a.alpha), n-len(pre))/1000) + 1, Run: func(r *mc.Recorder) {
					cnt, nt := int64(0), int64(0)
					m := n - len(pre)
					f := func(b []byte) {
						s := pre + string(b)
						c12check(r, s, true)
						cnt++
						if leastRotBrute(s) != s {
							nt++
						}
						if cnt == 1 {
							r.Sample(fmt.Sprintf("RotateSequence(%q) == brute-force least rotation %q", s, leastRotBrute(s)))
						}
					}
					if m == 0 {
						f(nil)
					} else {
						enumStrings(a.alpha, m, f)
					}
					r.Eval(cnt)
					r.AddStates(cnt)
					r.AddTransitions(cnt)
					r.AddNontrivial(nt)
					r.Bound("exhaustive/"+a.name, fmt.Sprintf("all strings of length 0..%d", maxn))
				}})
			}
		}
	}
	// powers w^k of every primitive word w, exact and with one letter changed at every position
	maxw := tier2(tier, 4, 6)
	maxTotal := tier2(tier, 40000, 1000000)
	maxMut := tier2(tier, 512, 4096)
	for wl := 1; wl <= maxw; wl++ {
		wl := wl
		us = append(us, mc.Unit{Name: fmt.Sprintf("powers/w=%d", wl), Weight: 50 * wl, Run: func(r *mc.Recorder) {
			cnt := int64(0)
			enumStrings("AB", wl, func(b []byte) {
				w := string(b)
				// primitive?
				for d := 1; d < wl; d++ {
					if wl%d == 0 && strings.Repeat(w[:d], wl/d) == w {
						return
					}
				}
				totals := []int{2 * wl, 7 * wl, maxMut}
				for t := 64; t <= maxTotal; t *= 2 {
					totals = append(totals, t, t+t/2) // 64, 96, 128, 192, ... : every binary order of magnitude
				}
				for _, total := range totals {
					k := total / wl
					if k < 1 {
						k = 1
					}
					s := strings.Repeat(w, k)
					c12check(r, s, len(s) <= 64)
					cnt++
					// truncated (fractional) powers: w^k followed by every proper prefix of w
					if wl > 1 && len(s) <= 2*maxMut {
						for pl := 1; pl < wl; pl++ {
							c12check(r, s+w[:pl], len(s) <= 64)
							cnt++
							// and every rotation of a short one
							if len(s) <= 96 {
								t := s + w[:pl]
								for rot := 1; rot < len(t); rot++ {
									c12check(r, t[rot:]+t[:rot], true)
									cnt++
								}
							}
						}
					}
					if len(s) <= maxMut {
						bs := []byte(s)
						for i := range bs {
							old := bs[i]
							for _, c := range []byte{'A', 'B', 'C'} {
								if c == old {
									continue
								}
								bs[i] = c
								c12check(r, string(bs), len(s) <= 64)
								cnt++
							}
							bs[i] = old
						}
					}
				}
			})
			r.Eval(cnt)
			r.AddStates(cnt)
			r.AddTransitions(cnt)
			r.AddNontrivial(cnt)
			r.Sample(fmt.Sprintf("all primitive words of length %d over {A,B}, repeated to lengths up to %d, plus every one-letter change at every position for lengths <= %d", wl, maxTotal, maxMut))
		}})
	}
	maxFib := tier2(tier, 10000, 1000000)
	us = append(us, mc.Unit{Name: "fibonacci", Weight: 100, Run: func(r *mc.Recorder) {
		cnt := int64(0)
		for _, ab := range [][2]string{{"A", "B"}, {"B", "A"}} {
			a, b := ab[0], ab[1]
			for len(b) <= maxFib {
				c12check(r, b, len(b) <= 64)
				cnt++
				a, b = b, b+a
			}
		}
		r.Eval(cnt)
		r.AddStates(cnt)
		r.AddTransitions(cnt)
		r.AddNontrivial(cnt)
		r.Sample(fmt.Sprintf("every Fibonacci word up to %d letters over (A,B) and (B,A)", maxFib))
	}})
	var menu []hcall
	for _, x := range []string{"TTAGCA", "ABABA", "", "AAAAAAGA", strings.Repeat("ACG", 30) + "AC", "B"} {
		x := x
		menu = append(menu, hcall{"RotateSequence(" + q(x) + ")", func() any { return seqhash.RotateSequence(x) }, showSprint})
	}
	us = append(us, historyUnit("api-histories", menu, 3))
	us = append(us, mc.Unit{Name: "selfcheck", Weight: 20, Run: func(r *mc.Recorder) {
		for n := 0; n <= 12; n++ {
			f := func(b []byte) {
				if s := string(b); leastRotTwoPointer(s) != leastRotBrute(s) {
					panic("oracle self-check failed on " + s)
				}
			}
			if n == 0 {
				f(nil)
				continue
			}
			enumStrings("AB", n, f)
			if n <= 8 {
				enumStrings("ABC", n, f)
			}
		}
		r.Bound("oracle-selfcheck", "two-pointer oracle == brute-force oracle on all {A,B}^<=12 and {A,B,C}^<=8")
	}})
	// every rotation of s canonicalises to the same string (direct check, n <= 12)
	us = append(us, mc.Unit{Name: "orbit", Weight: 100, Run: func(r *mc.Recorder) {
		cnt := int64(0)
		for n := 1; n <= tier2(tier, 9, 12); n++ {
			enumStrings("AB", n, func(b []byte) {
				s := string(b)
				var c0 string
				if p := catch(func() { c0 = seqhash.RotateSequence(s) }); p != "" {
					return // reported by the exhaustive unit
				}
				for k := 1; k < n; k++ {
					rot := s[k:] + s[:k]
					var c string
					if p := catch(func() { c = seqhash.RotateSequence(rot) }); p != "" {
						continue
					}
					cnt++
					if c != c0 {
						r.Failf("orbit", q(s)+" rot "+fmt.Sprint(k), nil, q(c0), q(c))
					}
				}
			})
		}
		r.Eval(cnt)
		r.AddTransitions(cnt)
		r.Sample("for every s over {A,B} up to the bound, RotateSequence(rotation k of s) == RotateSequence(s) for every k")
	}})
	// structured sweep: every length 1..300 and geometrically beyond x the shapes of dnaShapes; each string and its
	// rotations by small offsets in both directions (the canonical start close to either end of the stored string)
	lens := sweepLengths(1, tier2(tier, 300, 600), tier2(tier, 70000, 200000))
	for part := 0; part < 8; part++ {
		part := part
		us = append(us, mc.Unit{Name: fmt.Sprintf("sweep/part=%d", part), Weight: 60, Run: func(r *mc.Recorder) {
			cnt := int64(0)
			for i, n := range lens {
				if i%8 != part {
					continue
				}
				shapes := dnaShapes(n)
				offs := []int{1, 2, 3, 5, 8, 13, 21, 22, 23, 24, 25, 33, 40, 64, n / 2}
				if n > 5000 {
					offs = []int{1, 7, 22, 23, 24, 64, n / 2}
					if len(shapes) > 12 {
						shapes = append(shapes[:6:6], shapes[len(shapes)-6:]...)
					}
				}
				for _, sh := range shapes {
					c12check(r, sh.s, false)
					cnt++
					var c0 string
					if p := catch(func() { c0 = seqhash.RotateSequence(sh.s) }); p != "" || len(c0) != n {
						continue // reported by c12check above
					}
					for _, k := range append([]int{0}, offs...) {
						for _, kk := range []int{k, n - k} {
							if kk < 0 || kk >= n || (k == 0 && kk != 0) {
								continue
							}
							// the canonical form itself, stored starting kk letters later
							rot := c0[kk:] + c0[:kk]
							var c string
							if p := catch(func() { c = seqhash.RotateSequence(rot) }); p != "" {
								r.Failf("no-panic", fmt.Sprintf("%s, %d letters, canonical form rotated by %d", sh.shape, n, kk), nil, "a rotation", "panic: "+p)
								continue
							}
							cnt++
							if c != c0 {
								r.Failf("orbit", fmt.Sprintf("%s, %d letters, canonical form rotated by %d", sh.shape, n, kk), nil, q(c0), q(c))
							}
						}
					}
				}
			}
			r.Eval(cnt)
			r.AddStates(cnt)
			r.AddTransitions(cnt)
			r.AddNontrivial(cnt)
			r.Bound("sweep", fmt.Sprintf("%d lengths (every length to %d, then +7%% steps to %d) x about 20 shapes x rotations by small offsets from either end", len(lens), tier2(tier, 300, 600), lens[len(lens)-1]))
		}})
	}
	// words over multi-byte UTF-8 letters (the rotation is defined on the bytes): every word of up to 5 letters over
	// four two- and three-byte letters and one ASCII letter
	us = append(us, mc.Unit{Name: "multibyte-letters", Weight: 20, Run: func(r *mc.Recorder) {
		toks := []string{"\u00e9", "\u00a9", "\u00c2", "\u20ac", "A"}
		cnt := int64(0)
		for n := 1; n <= 5; n++ {
			enumStrings("01234", n, func(b []byte) {
				var sb strings.Builder
				for _, x := range b {
					sb.WriteString(toks[x-'0'])
				}
				s := sb.String()
				c12check(r, s, true)
				cnt++
				var c0 string
				if p := catch(func() { c0 = seqhash.RotateSequence(s) }); p != "" || len(c0) != len(s) {
					return
				}
				for k := 1; k < len(s); k++ {
					var c string
					if p := catch(func() { c = seqhash.RotateSequence(s[k:] + s[:k]) }); p == "" && c != c0 {
						r.Failf("orbit", q(s)+" rot "+fmt.Sprint(k), nil, q(c0), q(c))
					}
					cnt++
				}
			})
		}
		r.Eval(cnt)
		r.AddStates(cnt)
		r.AddTransitions(cnt)
		r.AddNontrivial(cnt)
		r.Bound("multibyte-letters", "every word of 1..5 letters over {U+00E9, U+00A9, U+00C2, U+20AC, A}, every byte rotation")
	}})
	// every byte value at the start, in the middle and at the end of a word
	us = append(us, mc.Unit{Name: "every-byte", Weight: 10, Run: func(r *mc.Recorder) {
		cnt := int64(0)
		for b := 0; b < 256; b++ {
			ch := string([]byte{byte(b)})
			for _, s := range []string{ch + "GATTACA", "GAT" + ch + "TACA", "GATTACA" + ch, ch, ch + ch + "A" + ch, "GATTACA" + ch + ch, "\n" + ch} {
				c12check(r, s, true)
				cnt++
				for k := 1; k < len(s); k++ {
					var c, c0 string
					if p := catch(func() { c0 = seqhash.RotateSequence(s); c = seqhash.RotateSequence(s[k:] + s[:k]) }); p == "" && c != c0 {
						r.Failf("orbit", q(s)+" rot "+fmt.Sprint(k), nil, q(c0), q(c))
					}
					cnt++
				}
			}
		}
		r.Eval(cnt)
		r.AddStates(cnt)
		r.AddTransitions(cnt)
		r.AddNontrivial(cnt)
		r.Bound("every-byte", "each of the 256 byte values at the start, in the middle and at the end of a 7-letter word (7 layouts), all rotations")
	}})
	return us
}

func init() {
	mc.Register(&mc.Harness{ID: "C12", Units: c12units,
		Rule:   "distinct input strings, enumerated completely per alphabet and length; non-trivial = the least rotation differs from the input (exhaustive units) or the string is a long periodic / near-periodic / Fibonacci word",
		Assume: []string{"Go string comparison is byte-wise lexicographic order", "the two-pointer minimal-rotation oracle used above 64 letters is itself validated against the brute-force oracle on every enumerated string (unit selfcheck)"}})
}
