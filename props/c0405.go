//go:build c04 || c05

package props

import (
	"encoding/hex"
	"fmt"
	"strings"
	"unicode"

	"github.com/TimothyStiles/poly/seqhash"
	"lukechampine.com/blake3"

	"verif/mc"
)

// --- oracle -----------------------------------------------------------------

var shComp = map[byte]byte{'A': 'T', 'C': 'G', 'G': 'C', 'T': 'A', 'R': 'Y', 'Y': 'R', 'S': 'S', 'W': 'W', 'K': 'M', 'M': 'K',
	'B': 'V', 'V': 'B', 'D': 'H', 'H': 'D', 'N': 'N'}

func shRC(s string) string {
	out := make([]byte, len(s))
	for i := 0; i < len(s); i++ {
		out[len(s)-1-i] = shComp[s[i]]
	}
	return string(out)
}

func shMinRot(s string) string {
	best := s
	d := s + s
	for k := 1; k < len(s); k++ {
		if r := d[k : k+len(s)]; r < best {
			best = r
		}
	}
	return best
}

// shCanon: brute-force canonical representative of an upper-case sequence.
func shCanon(s string, circ, ds bool) string {
	c := s
	if circ {
		c = shMinRot(s)
	}
	if ds {
		o := shRC(s)
		if circ {
			o = shMinRot(o)
		}
		if o < c {
			c = o
		}
	}
	return c
}

func shTag(typ string, circ, ds bool) string {
	t := map[string]string{"DNA": "D", "RNA": "R", "PROTEIN": "P"}[typ]
	if circ {
		t += "C"
	} else {
		t += "L"
	}
	if ds {
		t += "D"
	} else {
		t += "S"
	}
	return t
}

func shExpected(upperDNA, typ string, circ, ds bool) string {
	d := blake3.Sum256([]byte(shCanon(upperDNA, circ, ds)))
	return "v1_" + shTag(typ, circ, ds) + "_" + hex.EncodeToString(d[:])
}

type shFlags struct {
	typ      string
	circ, ds bool
}

func (f shFlags) String() string { return fmt.Sprintf("%s/circ=%v/ds=%v", f.typ, f.circ, f.ds) }

var shAllFlags = func() []shFlags {
	var o []shFlags
	for _, t := range []string{"DNA", "RNA"} {
		for _, c := range []bool{false, true} {
			for _, d := range []bool{false, true} {
				o = append(o, shFlags{t, c, d})
			}
		}
	}
	return o
}()

// shTable hashes every string of length n over alpha (with prefix) and returns
// the table; a failed hash is reported under clause.
func shTable(r *mc.Recorder, alpha string, n int, f shFlags, spell func(string) string) map[string]string {
	tbl := make(map[string]string, pow(len(alpha), n))
	fn := func(b []byte) {
		s := string(b)
		in := s
		if spell != nil {
			in = spell(s)
		}
		var h string
		var err error
		if p := catch(func() { h, err = seqhash.Hash(in, f.typ, f.circ, f.ds) }); p != "" {
			r.Failf("no-panic", q(in)+" "+f.String(), nil, "a hash", "panic: "+p)
			return
		}
		if err != nil {
			if in == "" {
				return // the properties speak of the sequences the function accepts; the empty one may be refused
			}
			r.Failf("accepted", q(in)+" "+f.String(), nil, "accepted", "error: "+err.Error())
			return
		}
		tbl[s] = h
	}
	if n == 0 {
		fn(nil)
	} else {
		enumStrings(alpha, n, fn)
	}
	return tbl
}

func toU(s string) string { return strings.ReplaceAll(s, "T", "U") }

// --- C04: invariance ---------------------------------------------------------

func c04table(r *mc.Recorder, alpha string, n int, f shFlags) {
	var spell func(string) string
	if f.typ == "RNA" {
		spell = toU
	}
	tbl := shTable(r, alpha, n, f, spell)
	var lookups, nt int64
	for s, h := range tbl {
		if f.circ {
			for k := 1; k < n; k++ {
				rot := s[k:] + s[:k]
				lookups++
				if h2, ok := tbl[rot]; ok && h2 != h {
					r.Failf("rotation", fmt.Sprintf("%s vs rotation %d %s %s", s, k, rot, f), nil, h, h2)
				}
			}
		}
		if f.ds {
			rc := shRC(s)
			lookups++
			if h2, ok := tbl[rc]; ok && h2 != h {
				r.Failf("strand", fmt.Sprintf("%s vs reverse complement %s %s", s, rc, f), nil, h, h2)
			}
			if f.circ {
				for k := 1; k < n; k++ {
					rot := rc[k:] + rc[:k]
					lookups++
					if h2, ok := tbl[rot]; ok && h2 != h {
						r.Failf("rotation+strand", fmt.Sprintf("%s vs %s %s", s, rot, f), nil, h, h2)
					}
				}
			}
		}
		if shCanon(s, f.circ, f.ds) != s {
			nt++
		}
	}
	r.Eval(int64(len(tbl)))
	r.AddStates(int64(len(tbl)))
	r.AddTransitions(lookups + int64(len(tbl)))
	r.AddNontrivial(nt)
}

func c04units(tier string) []mc.Unit {
	var us []mc.Unit
	acgtMax := tier2(tier, 7, 9)
	iupacMax := tier2(tier, 3, 4)
	for _, f := range shAllFlags {
		f := f
		for n := 0; n <= acgtMax; n++ {
			n := n
			us = append(us, mc.Unit{Name: fmt.Sprintf("acgt/n=%d/%s", n, f), Weight: int(pow(4, n)/200) + 1, Run: func(r *mc.Recorder) {
				c04table(r, "ACGT", n, f)
				if n == 4 {
					r.Sample(fmt.Sprintf("table of Hash(s,%s) for all 4^%d strings s; every rotation / reverse complement looked up and compared", f, n))
				}
				r.Bound("acgt", fmt.Sprintf("all strings of length 0..%d under 4 flag combinations x {DNA,RNA}", acgtMax))
			}})
		}
		for n := 1; n <= iupacMax; n++ {
			n := n
			us = append(us, mc.Unit{Name: fmt.Sprintf("iupac/n=%d/%s", n, f), Weight: int(pow(15, n)/200) + 1, Run: func(r *mc.Recorder) {
				c04table(r, c11codesSH, n, f)
				r.Bound("iupac", fmt.Sprintf("all strings over ACGTRYSWKMBDHVN of length 1..%d", iupacMax))
			}})
		}
	}
	// case: all 2^n case masks
	caseMax := tier2(tier, 5, 7)
	for _, f := range shAllFlags {
		f := f
		for n := 1; n <= caseMax; n++ {
			n := n
			us = append(us, mc.Unit{Name: fmt.Sprintf("case/n=%d/%s", n, f), Weight: int(pow(8, n)/200) + 1, Run: func(r *mc.Recorder) {
				var cnt int64
				enumStrings("ACGT", n, func(b []byte) {
					up := string(b)
					if f.typ == "RNA" {
						up = toU(up)
					}
					h0, err := seqhash.Hash(up, f.typ, f.circ, f.ds)
					if err != nil {
						r.Failf("accepted", q(up)+" "+f.String(), nil, "accepted", err.Error())
						return
					}
					for m := 1; m < 1<<n; m++ {
						bs := []byte(up)
						for i := 0; i < n; i++ {
							if m&(1<<i) != 0 {
								bs[i] += 32
							}
						}
						var h string
						if p := catch(func() { h, err = seqhash.Hash(string(bs), f.typ, f.circ, f.ds) }); p != "" || err != nil {
							r.Failf("case", q(string(bs))+" "+f.String(), nil, h0, fmt.Sprint("panic/error: ", p, err))
							continue
						}
						cnt++
						if h != h0 {
							r.Failf("case", q(string(bs))+" "+f.String(), nil, h0, h)
						}
					}
				})
				r.Eval(cnt)
				r.AddStates(cnt)
				r.AddTransitions(cnt)
				r.AddNontrivial(cnt)
				r.Bound("case", fmt.Sprintf("all 2^n case masks of all ACGT strings, n<=%d", caseMax))
			}})
		}
	}
	// IUPAC lower / alternating case
	us = append(us, mc.Unit{Name: "case/iupac", Weight: 30, Run: func(r *mc.Recorder) {
		var cnt int64
		for _, f := range shAllFlags {
			for n := 1; n <= 3; n++ {
				enumStrings(c11codesSH, n, func(b []byte) {
					up := string(b)
					if f.typ == "RNA" {
						up = toU(up)
					}
					h0, _ := seqhash.Hash(up, f.typ, f.circ, f.ds)
					alt := []byte(up)
					for i := range alt {
						if i%2 == 0 {
							alt[i] += 32
						}
					}
					for _, v := range []string{strings.ToLower(up), string(alt)} {
						h, err := seqhash.Hash(v, f.typ, f.circ, f.ds)
						cnt++
						if err != nil || h != h0 {
							r.Failf("case", q(v)+" "+f.String(), nil, h0, fmt.Sprint(h, err))
						}
					}
				})
			}
		}
		r.Eval(cnt)
		r.AddTransitions(cnt)
		r.AddNontrivial(cnt)
	}})
	// long inputs at lengths around powers of two and decimal round numbers (an enumerated family, not a sample):
	// rotation by a few offsets, strand, case and spelling must leave the hash unchanged
	for _, n := range shLongLengths(tier) {
		n := n
		us = append(us, mc.Unit{Name: fmt.Sprintf("long/n=%d", n), Weight: n/500 + 1, Run: func(r *mc.Recorder) {
			var cnt int64
			for _, fam := range []string{"lcg", "periodic"} {
				s := shLong(n, fam)
				for _, f := range shAllFlags {
					in := s
					if f.typ == "RNA" {
						in = toU(s)
					}
					h0, err := seqhash.Hash(in, f.typ, f.circ, f.ds)
					if err != nil {
						r.Failf("accepted", fmt.Sprintf("%s sequence of %d bases %s", fam, n, f), nil, "accepted", err.Error())
						continue
					}
					variants := map[string]string{"lower case": strings.ToLower(in)}
					if f.circ {
						for _, k := range []int{1, 7, n / 2, n - 1} {
							if k > 0 && k < n {
								variants[fmt.Sprintf("rotation %d", k)] = in[k:] + in[:k]
							}
						}
					}
					if f.ds {
						rc := shRC(s)
						if f.typ == "RNA" {
							rc = toU(rc)
						}
						variants["reverse complement"] = rc
						if f.circ && n > 3 {
							variants["rotated reverse complement"] = rc[3:] + rc[:3]
						}
					}
					for what, v := range variants {
						var h string
						if p := catch(func() { h, err = seqhash.Hash(v, f.typ, f.circ, f.ds) }); p != "" || err != nil || h != h0 {
							r.Failf("long-"+strings.Fields(what)[0], fmt.Sprintf("%s sequence of %d bases, %s, %s", fam, n, what, f), nil, h0, fmt.Sprint(h, err, p))
						}
						cnt++
					}
				}
			}
			r.Eval(cnt)
			r.AddStates(cnt)
			r.AddTransitions(cnt)
			r.AddNontrivial(cnt)
			r.Bound("long", fmt.Sprintf("two sequence families at lengths %v", shLongLengths(tier)))
		}})
	}
	// structured sweep: every length 1..200 and geometrically beyond x the shapes of dnaShapes x all flag combinations
	for part := 0; part < 8; part++ {
		part := part
		lens := sweepLengths(1, tier2(tier, 200, 400), tier2(tier, 75000, 200000))
		us = append(us, mc.Unit{Name: fmt.Sprintf("sweep/part=%d", part), Weight: 60, Run: func(r *mc.Recorder) {
			var cnt int64
			for i, n := range lens {
				if i%8 != part {
					continue
				}
				shapes := dnaShapes(n)
				if n > 3000 && len(shapes) > 10 {
					shapes = append(shapes[:4:4], shapes[len(shapes)-6:]...)
				}
				if n > 20000 {
					shapes = shapes[len(shapes)-4:]
				}
				for _, sh := range shapes {
					for _, f := range shAllFlags {
						in := sh.s
						if f.typ == "RNA" {
							in = toU(in)
						}
						h0, err := seqhash.Hash(in, f.typ, f.circ, f.ds)
						if err != nil {
							r.Failf("accepted", fmt.Sprintf("%s, %d bases %s", sh.shape, n, f), nil, "accepted", err.Error())
							continue
						}
						variants := map[string]string{"lower case": strings.ToLower(in), "mixed case": strings.ToLower(in[:n/2]) + in[n/2:]}
						if f.circ {
							for _, k := range []int{1, 23, n / 2, n - 1, n - 24} {
								if k > 0 && k < n {
									variants[fmt.Sprintf("rotation %d", k)] = in[k:] + in[:k]
								}
							}
							// the molecule written from its own least rotation (what RotateSequence returns)
							canon := shMinRotFast(sh.s)
							if f.typ == "RNA" {
								canon = toU(canon)
							}
							variants["rotation to the canonical start"] = canon
						}
						if f.ds {
							rc := shRC(sh.s)
							if f.typ == "RNA" {
								rc = toU(rc)
							}
							variants["reverse complement"] = rc
							if f.circ && n > 3 {
								variants["rotated reverse complement"] = rc[3:] + rc[:3]
							}
						}
						for what, v := range variants {
							var h string
							if p := catch(func() { h, err = seqhash.Hash(v, f.typ, f.circ, f.ds) }); p != "" || err != nil || h != h0 {
								r.Failf("long-"+strings.Fields(what)[0], fmt.Sprintf("%s, %d bases, %s, %s", sh.shape, n, what, f), nil, h0, fmt.Sprint(h, err, p))
							}
							cnt++
						}
					}
				}
			}
			r.Eval(cnt)
			r.AddStates(cnt)
			r.AddTransitions(cnt)
			r.AddNontrivial(cnt)
			r.Bound("sweep", fmt.Sprintf("%d lengths (every length to %d, then +7%% steps to %d) x about 20 shapes x 8 declarations x rotation, strand, case", len(lens), tier2(tier, 200, 400), lens[len(lens)-1]))
		}})
	}
	// proteins: a circular protein hashes the same from every rotation and in either case; all words of 1..3 letters
	// over a 7-letter subset that includes the stop symbol, and longer pseudo-random words with '*' at either end
	us = append(us, mc.Unit{Name: "protein-rotations", Weight: 30, Run: func(r *mc.Recorder) {
		var cnt int64
		one := func(s string) {
			h0, err := seqhash.Hash(s, "PROTEIN", true, false)
			if err != nil {
				return // judged by C05 (accepted alphabet)
			}
			variants := map[string]string{"lower case": strings.ToLower(s)}
			for k := 1; k < len(s); k++ {
				if len(s) > 12 && k > 3 && k < len(s)-3 {
					continue
				}
				variants[fmt.Sprintf("rotation %d", k)] = s[k:] + s[:k]
			}
			for what, v := range variants {
				var h string
				if p := catch(func() { h, err = seqhash.Hash(v, "PROTEIN", true, false) }); p != "" || err != nil || h != h0 {
					r.Failf("protein-"+strings.Fields(what)[0], fmt.Sprintf("%q, %s, circular protein", s, what), nil, h0, fmt.Sprint(h, err, p))
				}
				cnt++
			}
			// linear: case only
			hl, err := seqhash.Hash(s, "PROTEIN", false, false)
			if err == nil {
				if h, err2 := seqhash.Hash(strings.ToLower(s), "PROTEIN", false, false); err2 != nil || h != hl {
					r.Failf("protein-lower", fmt.Sprintf("%q, lower case, linear protein", s), nil, hl, fmt.Sprint(h, err2))
				}
				cnt++
			}
		}
		for n := 1; n <= 4; n++ {
			enumStrings("MKV*ACU", n, func(b []byte) { one(string(b)) })
		}
		for _, n := range sweepLengths(5, 80, 3000) {
			w := lcgString(protAlpha[:22], n, uint32(n))
			one(w)
			one(w + "*")
			one("*" + w)
			one(w[:n/2] + "*" + w[n/2:])
		}
		r.Eval(cnt)
		r.AddStates(cnt)
		r.AddTransitions(cnt)
		r.AddNontrivial(cnt)
		r.Bound("protein-rotations", "all words of 1..4 letters over {M,K,V,*,A,C,U}; pseudo-random words of every length 5..80 (then +7% steps to 3000) with the stop symbol at the end, the start, the middle or absent")
	}})
	us = append(us, historyUnit("api-histories", shMenu(), 3))
	// RNA spelling: Hash(U-spelling, RNA) == Hash(T-spelling, DNA) except the type letter
	rnaMax := tier2(tier, 7, 9)
	for n := 0; n <= rnaMax; n++ {
		n := n
		us = append(us, mc.Unit{Name: fmt.Sprintf("rna/n=%d", n), Weight: int(pow(4, n)/100) + 1, Run: func(r *mc.Recorder) {
			var cnt int64
			for _, f := range shAllFlags {
				if f.typ != "DNA" {
					continue
				}
				dna := shTable(r, "ACGT", n, f, nil)
				rna := shTable(r, "ACGT", n, shFlags{"RNA", f.circ, f.ds}, toU)
				for s, hd := range dna {
					hr, ok := rna[s]
					if !ok {
						continue
					}
					cnt++
					if len(hd) < 4 || len(hr) < 4 || hd[:3] != hr[:3] || hd[4:] != hr[4:] || hd[3] != 'D' || hr[3] != 'R' {
						r.Failf("rna-spelling", fmt.Sprintf("%s circ=%v ds=%v", s, f.circ, f.ds), nil, hd+" modulo the type letter", hr)
					}
				}
			}
			if n > 0 {
				// a mixed spelling (first T kept as T, the rest U) must hash the same under RNA
				f := shFlags{"RNA", true, true}
				tbl := shTable(r, "ACGT", n, f, toU)
				for s, h := range tbl {
					i := strings.IndexByte(s, 'T')
					if i < 0 {
						continue
					}
					mixed := s[:i+1] + toU(s[i+1:])
					h2, err := seqhash.Hash(mixed, "RNA", true, true)
					cnt++
					if err != nil {
						continue // a spelling the function does not accept is outside the statement
					}
					if h2 != h {
						r.Failf("rna-spelling", q(mixed)+" vs "+q(toU(s)), nil, h, fmt.Sprint(h2, err))
					}
				}
			}
			r.Eval(cnt)
			r.AddStates(cnt)
			r.AddTransitions(cnt)
			r.AddNontrivial(cnt)
			r.Bound("rna", fmt.Sprintf("all ACGT strings of length 0..%d respelt with U", rnaMax))
		}})
	}
	return us
}

const c11codesSH = "ACGTRYSWKMBDHVN"

func shLongLengths(tier string) []int {
	l := []int{255, 256, 257, 1000, 4095, 4096, 4097, 9999}
	if tier == "thorough" {
		l = append(l, 32767, 32768, 32769, 65535, 65536, 65537, 70001, 99999, 100000)
	} else {
		l = append(l, 65535, 65537, 70001)
	}
	return l
}

// shLong: a deterministic long ACGT sequence: pseudo-random (lcg) or a period-7 word with one changed letter
func shLong(n int, fam string) string {
	b := make([]byte, n)
	if fam == "lcg" {
		x := uint32(2024)
		for i := range b {
			x = x*1664525 + 1013904223
			b[i] = "ACGT"[(x>>25)%4]
		}
	} else {
		for i := range b {
			b[i] = "GATTACA"[i%7]
		}
		b[n/3] = 'C'
	}
	return string(b)
}

// linear-time least rotation (two pointers), validated against brute force in the C12 harness
func shMinRotFast(s string) string {
	n := len(s)
	if n == 0 {
		return s
	}
	i, j, k := 0, 1, 0
	for i < n && j < n && k < n {
		a, b := s[(i+k)%n], s[(j+k)%n]
		if a == b {
			k++
			continue
		}
		if a > b {
			i += k + 1
		} else {
			j += k + 1
		}
		if i == j {
			j++
		}
		k = 0
	}
	st := i
	if j < i {
		st = j
	}
	return s[st:] + s[:st]
}

// --- C05: separation, form, rejection ------------------------------------------

func c05table(r *mc.Recorder, alpha string, n int, f shFlags) {
	var spell func(string) string
	if f.typ == "RNA" {
		spell = toU
	}
	tbl := shTable(r, alpha, n, f, spell)
	byHash := map[string]string{} // hash -> canonical rep
	var nt int64
	for s, h := range tbl {
		c := shCanon(s, f.circ, f.ds)
		if want := shExpected(s, f.typ, f.circ, f.ds); h != want {
			r.Failf("form", q(s)+" "+f.String(), nil, want, h)
		}
		if prev, ok := byHash[h]; ok && prev != c {
			r.Failf("separation", fmt.Sprintf("%s and %s are different molecules (%s)", prev, c, f), nil, "different hashes", h)
		}
		byHash[h] = c
		if c != s {
			nt++
		}
	}
	// distinct orbits must have given distinct hashes: count both ways
	orbits := map[string]bool{}
	for s := range tbl {
		orbits[shCanon(s, f.circ, f.ds)] = true
	}
	if len(orbits) != len(byHash) && len(tbl) == int(pow(len(alpha), n)) {
		r.Failf("partition", fmt.Sprintf("n=%d %s", n, f), nil, fmt.Sprint(len(orbits), " orbits"), fmt.Sprint(len(byHash), " distinct hashes"))
	}
	r.Eval(int64(len(tbl)))
	r.AddStates(int64(len(orbits)))
	r.AddTransitions(int64(len(tbl)))
	r.AddNontrivial(nt)
}

const protAlpha = "ACDEFGHIKLMNPQRSTVWYUO*BXZ"
const nucAccepted = "ATUGCYRSWKMBDHVNZ"

func c05units(tier string) []mc.Unit {
	var us []mc.Unit
	acgtMax := tier2(tier, 7, 9)
	for _, f := range shAllFlags {
		f := f
		for n := 0; n <= acgtMax; n++ {
			n := n
			us = append(us, mc.Unit{Name: fmt.Sprintf("acgt/n=%d/%s", n, f), Weight: int(pow(4, n)/100) + 1, Run: func(r *mc.Recorder) {
				c05table(r, "ACGT", n, f)
				if n == 3 && f.circ && f.ds {
					r.Sample(fmt.Sprintf("all 4^3 strings under %s: partition by hash == partition by brute-force canonical form; value == v1_%s_<blake3(canon)>", f, shTag(f.typ, f.circ, f.ds)))
				}
				r.Bound("acgt", fmt.Sprintf("all strings of length 0..%d under 4 flag combinations x {DNA,RNA}", acgtMax))
			}})
		}
		for n := 1; n <= tier2(tier, 3, 4); n++ {
			n := n
			us = append(us, mc.Unit{Name: fmt.Sprintf("iupac/n=%d/%s", n, f), Weight: int(pow(15, n)/100) + 1, Run: func(r *mc.Recorder) {
				c05table(r, c11codesSH, n, f)
			}})
		}
	}
	// the two remaining accepted nucleotide letters, U and Z, as letters of their own: single-stranded DNA over
	// {A,C,G,T,U,Z} (U is a different letter from T unless the molecule is declared RNA; the strand clauses do not
	// apply to letters without a complement, hence single-stranded only)
	for _, circ := range []bool{false, true} {
		circ := circ
		for n := 1; n <= tier2(tier, 4, 5); n++ {
			n := n
			us = append(us, mc.Unit{Name: fmt.Sprintf("acgtuz/n=%d/circ=%v", n, circ), Weight: int(pow(6, n)/100) + 1, Run: func(r *mc.Recorder) {
				c05table(r, "ACGTUZ", n, shFlags{"DNA", circ, false})
			}})
		}
	}
	// long inputs: the value is still v1_<tag>_<BLAKE3 of the canonical representative> (linear-time oracle)
	for _, n := range shLongLengths(tier) {
		n := n
		us = append(us, mc.Unit{Name: fmt.Sprintf("long/n=%d", n), Weight: n/500 + 1, Run: func(r *mc.Recorder) {
			var cnt int64
			for _, fam := range []string{"lcg", "periodic"} {
				s := shLong(n, fam)
				for _, f := range shAllFlags {
					c := s
					if f.circ {
						c = shMinRotFast(s)
					}
					if f.ds {
						o := shRC(s)
						if f.circ {
							o = shMinRotFast(o)
						}
						if o < c {
							c = o
						}
					}
					d := blake3.Sum256([]byte(c))
					want := "v1_" + shTag(f.typ, f.circ, f.ds) + "_" + hex.EncodeToString(d[:])
					in := strings.ToLower(s)
					if f.typ == "RNA" {
						in = toU(s)
					}
					var h string
					var err error
					if p := catch(func() { h, err = seqhash.Hash(in, f.typ, f.circ, f.ds) }); p != "" || err != nil || h != want {
						r.Failf("form", fmt.Sprintf("%s sequence of %d bases %s", fam, n, f), nil, want, fmt.Sprint(h, err, p))
					}
					cnt++
				}
			}
			r.Eval(cnt)
			r.AddStates(cnt)
			r.AddTransitions(cnt)
			r.AddNontrivial(cnt)
		}})
	}
	// structured sweep: the published form on every length 1..200 and geometrically beyond x the shapes of dnaShapes
	for part := 0; part < 8; part++ {
		part := part
		lens := sweepLengths(1, tier2(tier, 200, 400), tier2(tier, 20000, 100000))
		us = append(us, mc.Unit{Name: fmt.Sprintf("sweep/part=%d", part), Weight: 60, Run: func(r *mc.Recorder) {
			var cnt int64
			for i, n := range lens {
				if i%8 != part {
					continue
				}
				shapes := dnaShapes(n)
				if n > 3000 && len(shapes) > 10 {
					shapes = append(shapes[:4:4], shapes[len(shapes)-6:]...)
				}
				for _, sh := range shapes {
					s := sh.s
					for _, f := range shAllFlags {
						c := s
						if f.circ {
							c = shMinRotFast(s)
						}
						if f.ds {
							o := shRC(s)
							if f.circ {
								o = shMinRotFast(o)
							}
							if o < c {
								c = o
							}
						}
						d := blake3.Sum256([]byte(c))
						want := "v1_" + shTag(f.typ, f.circ, f.ds) + "_" + hex.EncodeToString(d[:])
						in := s
						if f.typ == "RNA" {
							in = toU(s)
						}
						for _, spelled := range []string{in, strings.ToLower(in)} {
							var h string
							var err error
							if p := catch(func() { h, err = seqhash.Hash(spelled, f.typ, f.circ, f.ds) }); p != "" || err != nil || h != want {
								r.Failf("form", fmt.Sprintf("%s, %d bases %s (upper case=%v)", sh.shape, n, f, spelled == in), nil, want, fmt.Sprint(h, err, p))
							}
							cnt++
						}
					}
				}
			}
			r.Eval(cnt)
			r.AddStates(cnt)
			r.AddTransitions(cnt)
			r.AddNontrivial(cnt)
			r.Bound("sweep", fmt.Sprintf("%d lengths (every length to %d, then +7%% steps to %d) x about 20 shapes x 8 declarations", len(lens), tier2(tier, 200, 400), lens[len(lens)-1]))
		}})
	}
	// every Unicode code point of the basic multilingual plane (and a few beyond) as a single letter inside an accepted
	// sequence: rejected unless its upper-case form is a letter of the type's alphabet
	us = append(us, mc.Unit{Name: "reject/every-rune", Weight: 60, Run: func(r *mc.Recorder) {
		var cnt int64
		for _, tc := range []struct{ typ, alpha, base string }{{"DNA", nucAccepted, "ATGCAT"}, {"RNA", nucAccepted, "AUGCAU"}, {"PROTEIN", protAlpha, "MKVLAA"}} {
			for c := rune(0); c <= 0x2FFFF; c++ {
				if c == 0x10000 {
					c = 0x1F600 // beyond the BMP: a window of the supplementary planes
				}
				if c > 0x1F6FF && c < 0x2F000 {
					c = 0x2F000
				}
				if c >= 0xD800 && c <= 0xDFFF {
					continue
				}
				if !unicode.IsLetter(c) {
					continue // the statement speaks of letters
				}
				wantOK := strings.ContainsRune(tc.alpha, unicode.ToUpper(c))
				if u := strings.ToUpper(string(c)); len([]rune(u)) != 1 {
					continue // special-casing to several letters: not a single letter any more
				} else if c >= 0x80 && (wantOK || strings.ContainsRune(tc.alpha, []rune(u)[0])) {
					continue // a non-ASCII letter whose upper-case form is in the alphabet (U+017F, U+0131): a case spelling
					// for an implementation that upper-cases with Unicode rules, an outside letter for one that does not
				}
				s := tc.base[:3] + string(c) + tc.base[3:]
				var err error
				p := catch(func() { _, err = seqhash.Hash(s, tc.typ, false, false) })
				cnt++
				if p != "" || (err == nil) != wantOK {
					r.Failf("reject-letter", fmt.Sprintf("%q (U+%04X) as %s", s, c, tc.typ), nil, fmt.Sprintf("accepted=%v", wantOK), fmt.Sprint("accepted=", err == nil, " ", p))
				}
			}
		}
		r.Eval(cnt)
		r.AddStates(cnt)
		r.AddTransitions(cnt)
		r.AddNontrivial(cnt)
		r.Bound("every-rune", "every letter among the code points U+0000..U+FFFF and two windows of the supplementary planes, inside a 6-letter sequence, for DNA, RNA and PROTEIN")
	}})
	// across flags and types: same sequence, different declaration => different hash
	us = append(us, mc.Unit{Name: "cross-flags", Weight: 20, Run: func(r *mc.Recorder) {
		var cnt int64
		for n := 1; n <= 4; n++ {
			enumStrings("ACGT", n, func(b []byte) {
				s := string(b)
				seen := map[string]string{}
				for _, f := range shAllFlags {
					in := s
					if f.typ == "RNA" {
						in = toU(s)
					}
					h, err := seqhash.Hash(in, f.typ, f.circ, f.ds)
					cnt++
					if err != nil {
						continue
					}
					if o, ok := seen[h]; ok {
						r.Failf("separation", fmt.Sprintf("%s under %s and %s", s, o, f), nil, "different hashes", h)
					}
					seen[h] = f.String()
				}
				for _, circ := range []bool{false, true} {
					h, err := seqhash.Hash(s, "PROTEIN", circ, false)
					cnt++
					if err == nil {
						if o, ok := seen[h]; ok {
							r.Failf("separation", fmt.Sprintf("%s under %s and PROTEIN", s, o), nil, "different hashes", h)
						}
						seen[h] = fmt.Sprint("PROTEIN/", circ)
					}
				}
			})
		}
		r.Eval(cnt)
		r.AddTransitions(cnt)
		r.AddNontrivial(cnt)
	}})
	// proteins
	pmax := tier2(tier, 2, 3)
	for n := 0; n <= pmax; n++ {
		for _, circ := range []bool{false, true} {
			n, circ := n, circ
			us = append(us, mc.Unit{Name: fmt.Sprintf("protein/n=%d/circ=%v", n, circ), Weight: int(pow(26, n)/100) + 1, Run: func(r *mc.Recorder) {
				byHash := map[string]string{}
				orbits := map[string]bool{}
				var cnt int64
				fn := func(b []byte) {
					s := string(b)
					var h string
					var err error
					if p := catch(func() { h, err = seqhash.Hash(s, "PROTEIN", circ, false) }); p != "" || err != nil {
						if p == "" && s == "" {
							return // the empty sequence may be refused
						}
						r.Failf("accepted", q(s)+" PROTEIN", nil, "accepted", fmt.Sprint(p, err))
						return
					}
					cnt++
					c := s
					if circ {
						c = shMinRot(s)
					}
					orbits[c] = true
					d := blake3.Sum256([]byte(c))
					tag := "PLS"
					if circ {
						tag = "PCS"
					}
					if want := "v1_" + tag + "_" + hex.EncodeToString(d[:]); h != want {
						r.Failf("form", q(s)+" PROTEIN circ="+fmt.Sprint(circ), nil, want, h)
					}
					if prev, ok := byHash[h]; ok && prev != c {
						r.Failf("separation", prev+" and "+c+" (PROTEIN)", nil, "different hashes", h)
					}
					byHash[h] = c
					// lower case accepted and equal
					if h2, err := seqhash.Hash(strings.ToLower(s), "PROTEIN", circ, false); err != nil || h2 != h {
						r.Failf("form", q(strings.ToLower(s))+" PROTEIN lower case", nil, h, fmt.Sprint(h2, err))
					}
					// double-stranded protein rejected
					if n <= 2 {
						if _, err := seqhash.Hash(s, "PROTEIN", circ, true); err == nil {
							r.Failf("reject-ds-protein", q(s), nil, "error", "hashed")
						}
					}
				}
				if n == 0 {
					fn(nil)
				} else {
					enumStrings(protAlpha, n, fn)
				}
				r.Eval(cnt)
				r.AddStates(int64(len(orbits)))
				r.AddTransitions(cnt)
				r.AddNontrivial(cnt)
				r.Bound("protein", fmt.Sprintf("all strings over the 26 protein letters of length 0..%d, linear and circular", pmax))
			}})
		}
	}
	us = append(us, historyUnit("api-histories", shMenu(), 3))
	// rejection must not depend on what was hashed before: accept a sequence under one declaration, then
	// present the same letters under a declaration that must be refused
	us = append(us, mc.Unit{Name: "reject-after-accept", Weight: 30, Run: func(r *mc.Recorder) {
		var cnt int64
		bad := func(what, s, typ string, circ, ds bool) {
			var err error
			p := catch(func() { _, err = seqhash.Hash(s, typ, circ, ds) })
			cnt++
			if p != "" || err == nil {
				r.Failf("reject-after-accept", fmt.Sprintf("%s: %q as %s circ=%v ds=%v", what, s, typ, circ, ds), nil, "error", fmt.Sprint("no error / panic: ", p))
			}
		}
		for n := 1; n <= 2; n++ {
			enumStrings(protAlpha, n, func(b []byte) {
				s := string(b)
				nuc := true
				for _, ch := range s {
					if !strings.ContainsRune(nucAccepted, ch) {
						nuc = false
					}
				}
				for _, circ := range []bool{false, true} {
					if _, err := seqhash.Hash(s, "PROTEIN", circ, false); err != nil {
						continue
					}
					bad("after hashing it as a single-stranded protein", s, "PROTEIN", circ, true)
					if !nuc {
						bad("after hashing it as a protein", s, "DNA", circ, false)
						bad("after hashing it as a protein", s, "RNA", circ, false)
					}
				}
			})
		}
		for n := 1; n <= 3; n++ {
			enumStrings("ACGT", n, func(b []byte) {
				s := string(b)
				for _, circ := range []bool{false, true} {
					if _, err := seqhash.Hash(s, "DNA", circ, true); err != nil {
						continue
					}
					bad("after hashing it as double-stranded DNA", s, "PROTEIN", circ, true)
					bad("after hashing it as double-stranded DNA", s, "TNA", circ, true)
				}
			})
		}
		r.Eval(cnt)
		r.AddStates(cnt)
		r.AddTransitions(cnt)
		r.AddNontrivial(cnt)
	}})
	// rejection
	us = append(us, mc.Unit{Name: "reject", Weight: 10, Run: func(r *mc.Recorder) {
		var cnt int64
		// unknown types only: other spellings of the three known types (lower case, surrounding blanks) may be
		// accepted by a lenient implementation without contradicting the statement
		for _, typ := range []string{"", "TNA", "XNA", "AA", "D", "DNARNA", "nucleotide", "PEPTIDE", "0", "DNA2"} {
			for _, circ := range []bool{false, true} {
				for _, ds := range []bool{false, true} {
					var err error
					p := catch(func() { _, err = seqhash.Hash("ACGT", typ, circ, ds) })
					cnt++
					if p != "" || err == nil {
						r.Failf("reject-type", fmt.Sprintf("type %q", typ), nil, "error", fmt.Sprint("no error / panic: ", p))
					}
				}
			}
		}
		for _, tc := range []struct{ typ, alpha, base string }{{"DNA", nucAccepted, "ACG"}, {"RNA", nucAccepted, "ACG"}, {"PROTEIN", protAlpha, "MKV"}} {
			for c := 0x20; c <= 0x7e; c++ {
				if strings.ContainsRune(tc.alpha, rune(c)) || strings.ContainsRune(strings.ToLower(tc.alpha), rune(c)) {
					continue
				}
				if !unicode.IsLetter(rune(c)) {
					continue // the statement speaks of letters: blanks, digits and punctuation may be skipped or refused
				}
				for pos := 0; pos <= 3; pos++ {
					s := tc.base[:pos] + string(rune(c)) + tc.base[pos:]
					for _, circ := range []bool{false, true} {
						for _, ds := range []bool{false, true} {
							if tc.typ == "PROTEIN" && ds {
								continue
							}
							var err error
							p := catch(func() { _, err = seqhash.Hash(s, tc.typ, circ, ds) })
							cnt++
							if p != "" || err == nil {
								r.Failf("reject-letter", fmt.Sprintf("%q as %s circ=%v ds=%v", s, tc.typ, circ, ds), nil, "error", fmt.Sprint("no error / panic: ", p))
							}
						}
					}
				}
			}
		}
		r.Eval(cnt)
		r.AddStates(cnt)
		r.AddTransitions(cnt)
		r.AddNontrivial(cnt)
		r.Sample(`Hash("ACJG","DNA",...) and every other ASCII letter outside the alphabet at every position of a 3-letter sequence must return an error`)
	}})
	return us
}

func shMenu() []hcall {
	h := func(name, s, typ string, circ, ds bool) hcall {
		return hcall{name, func() any {
			v, err := seqhash.Hash(s, typ, circ, ds)
			if err != nil {
				return "error"
			}
			return v
		}, showSprint}
	}
	return []hcall{
		h("Hash(GATTACA,DNA,circ,ds)", "GATTACA", "DNA", true, true),
		h("Hash(TGTAATC,DNA,circ,ds)", "TGTAATC", "DNA", true, true),
		h("Hash(gattaca,DNA,lin,ds)", "gattaca", "DNA", false, true),
		h("Hash(GAUUACA,RNA,circ,ss)", "GAUUACA", "RNA", true, false),
		h("Hash(MKVF,PROTEIN,lin,ss)", "MKVF", "PROTEIN", false, false),
		h("Hash(MKVF,DNA,lin,ss)", "MKVF", "DNA", false, false),
		h("Hash(GATTACA,PROTEIN,circ,ds)", "GATTACA", "PROTEIN", true, true),
		{"RotateSequence(TTAGCA)", func() any { return seqhash.RotateSequence("TTAGCA") }, showSprint},
	}
}

func init() {
	mc.Register(&mc.Harness{ID: "C04", Units: c04units,
		Rule:   "distinct (sequence, type, flags) inputs, enumerated completely per length; non-trivial = the sequence is not its own canonical representative (so invariance is exercised)",
		Assume: []string{"the IUPAC complement table of the oracle (derived pairs A/T C/G R/Y K/M B/V D/H, S W N self)", "U under DNA and the letter Z are outside the quantifier and not generated"}})
	mc.Register(&mc.Harness{ID: "C05", Units: c05units,
		Rule:   "distinct (sequence, type, flags) inputs enumerated completely per length; states = distinct molecules (brute-force orbits); non-trivial = input differs from its canonical representative, or is a rejection case",
		Assume: []string{"BLAKE3 (lukechampine.com/blake3, the library poly uses) is trusted and collision-free on the enumerated set"}})
}
