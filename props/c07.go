//go:build c07

package props

import (
	"fmt"
	"sort"
	"strings"

	"github.com/TimothyStiles/poly/random"
	"github.com/TimothyStiles/poly/transform/codon"

	"verif/mc"
	"verif/vrand"
)

// c7optimize runs Optimize(protein, table) under every sequence of answers of
// the random source and returns, per answer sequence, the result.
type c7res struct {
	dna    string
	err    error
	panic  string
	draws  int
	answer []int
}

func c7all(protein string, t codon.Table, maxExecs int) ([]c7res, mc.Stats) {
	var out []c7res
	vrand.Enabled = true
	defer func() { vrand.Enabled = false }()
	st := mc.Explore(mc.Options{DevBound: -1, PreemptBound: -1, MaxExecs: maxExecs}, func(c *mc.Ctx) bool {
		var r c7res
		d0 := vrand.Draws
		r.panic = catch(func() { r.dna, r.err = codon.Optimize(protein, t) })
		r.draws = vrand.Draws - d0
		r.answer = c.Choices()
		out = append(out, r)
		return true
	})
	return out, st
}

// eligible codons of an amino acid: share > 10% and weight > 0.
func c7eligible(v tableView, letter string) map[string]int {
	tot := 0
	for c, l := range v.letter {
		if l == letter {
			tot += v.w[c]
		}
	}
	e := map[string]int{}
	for c, l := range v.letter {
		if l == letter && v.w[c] > 0 && float64(v.w[c])/float64(tot) > 0.10 {
			e[c] = v.w[c]
		}
	}
	return e
}

// c7judge checks one protein on one table over all answers.
func c7judge(r *mc.Recorder, cas string, protein string, t codon.Table, encodable bool, proportional bool) (execs int64) {
	v := viewOf(t)
	res, st := c7all(protein, t, 2000000)
	r.AddTransitions(int64(st.Transitions))
	counts := map[string]int{}
	for _, x := range res {
		ans := fmt.Sprintf("%s answers=%v", cas, x.answer)
		if x.panic != "" {
			r.Failf("no-panic", ans, []string{"unencodable=" + fmt.Sprint(!encodable)}, "an error or a coding sequence", "panic: "+x.panic)
			continue
		}
		if !encodable {
			if x.err == nil {
				// not rejected: then it must at least be a correct round trip
				if back, _ := codon.Translate(x.dna, t); back != protein || len(x.dna) != 3*len(protein) {
					r.Failf("reject-unencodable", ans, nil, "error", "returned "+q(x.dna))
				}
			}
			continue
		}
		if x.err != nil {
			r.Failf("encodable-accepted", ans, nil, "a coding sequence", "error: "+x.err.Error())
			continue
		}
		if len(x.dna) != 3*len(protein) {
			r.Failf("three-bases-per-residue", ans, nil, fmt.Sprint(3*len(protein)), fmt.Sprintf("%d: %s", len(x.dna), x.dna))
			continue
		}
		back, err := codon.Translate(x.dna, t)
		if err != nil || back != protein {
			r.Failf("translates-back", ans, nil, protein, fmt.Sprint(back, err))
		}
		for i := 0; i+3 <= len(x.dna); i += 3 {
			c := x.dna[i : i+3]
			if _, ok := c7eligible(v, string(protein[i/3]))[c]; !ok {
				r.Failf("threshold", ans, nil, "codons with share > 10% and weight > 0", fmt.Sprintf("%s (weight %d) for %c", c, v.w[c], protein[i/3]))
			}
		}
		if len(protein) == 1 {
			counts[x.dna]++
		}
		if x.draws != len(protein) && proportional {
			// the draws do not go through the package-level source: proportionality cannot be decided by counting
			r.Cap(fmt.Sprintf("%s: %d draws observed for %d residues; proportionality not decided", cas, x.draws, len(protein)))
			proportional = false
		}
	}
	if proportional && encodable && len(protein) == 1 && len(res) > 0 && res[0].panic == "" {
		// exact proportionality: #answers yielding c == weight(c) for eligible c
		el := c7eligible(v, protein)
		tot := 0
		for _, w := range el {
			tot += w
		}
		ok := len(res) == tot
		for c, w := range el {
			if counts[c] != w {
				ok = false
			}
		}
		if !ok {
			var keys []string
			for c := range el {
				keys = append(keys, c)
			}
			sort.Strings(keys)
			var e, g []string
			for _, c := range keys {
				e = append(e, fmt.Sprintf("%s:%d", c, el[c]))
				g = append(g, fmt.Sprintf("%s:%d", c, counts[c]))
			}
			r.Failf("proportional", cas, nil, fmt.Sprintf("answers=%d %s", tot, strings.Join(e, " ")), fmt.Sprintf("answers=%d %s", len(res), strings.Join(g, " ")))
		}
	}
	return int64(len(res))
}

func c7letters(v tableView) []string {
	m := map[string]bool{}
	for _, l := range v.letter {
		m[l] = true
	}
	var out []string
	for l := range m {
		out = append(out, l)
	}
	sort.Strings(out)
	return out
}

// c7reweight builds a private table in which the synonyms of one amino acid get
// the given counts and every other codon count 1.
func c7reweight(id int, letter string, counts []int) (codon.Table, bool) {
	t := deepCopyTable(codon.GetCodonTable(id))
	v := viewOf(t)
	cods := v.synonyms()[letter]
	if len(cods) != len(counts) {
		return t, false
	}
	cnt := map[string]int{}
	for _, c := range allCodons {
		cnt[c] = 1
	}
	for i, c := range cods {
		cnt[c] = counts[i]
	}
	return t.OptimizeTable(seqForCounts(cnt)), true
}

// c7menu: calls of the other exported functions with arguments unlike the defaults, and an Optimize observation that
// shows the threshold (the set of results over all answers on a table with a rare codon).
func c7menu() []hcall {
	tv := func(t codon.Table) string {
		v := viewOf(t)
		return v.weights() + v.letters() + fmt.Sprint(t.StartCodons, t.StopCodons)
	}
	all := strings.Join(allCodons, "")
	mk := func(id int, s string) codon.Table { return deepCopyTable(codon.GetCodonTable(id)).OptimizeTable(s) }
	comp := func(cut float64) hcall {
		return hcall{fmt.Sprintf("CompromiseCodonTable(copies,%g)", cut), func() any {
			t, err := codon.CompromiseCodonTable(mk(11, all+"ATGATGGGG"), mk(1, all+"CCCTTT"), cut)
			if err != nil {
				return codon.Table{}
			}
			return t
		}, func(v any) string { return tv(v.(codon.Table)) }}
	}
	return []hcall{comp(0), comp(0.03), comp(0.5), comp(1), comp(-1), comp(2),
		{"Optimize(FI, F=[1 20] I=[2 9 9]) over all answers", func() any {
			t, _ := c7reweight(1, "F", []int{1, 20})
			v := viewOf(t)
			cnt := map[string]int{}
			for _, c := range allCodons {
				cnt[c] = v.w[c]
			}
			for i, c := range v.synonyms()["I"] {
				cnt[c] = []int{2, 9, 9}[i]
			}
			t = t.OptimizeTable(seqForCounts(cnt))
			res, _ := c7all("FI", t, 100000)
			set := map[string]bool{}
			for _, x := range res {
				if x.draws != 2 && x.err == nil && x.panic == "" {
					return "the draws do not go through the package-level source: not observable"
				}
				set[fmt.Sprint(x.dna, x.err, x.panic)] = true
			}
			var ks []string
			for k := range set {
				ks = append(ks, k)
			}
			sort.Strings(ks)
			return strings.Join(ks, " ")
		}, showSprint},
	}
}

func c07units(tier string) []mc.Unit {
	var us []mc.Unit
	thorough := tier == "thorough"
	// (i) default tables x every letter x every answer
	for _, id := range ncbiIDs() {
		id := id
		us = append(us, mc.Unit{Name: fmt.Sprintf("default/table=%d", id), Serial: true, Weight: 10, Run: func(r *mc.Recorder) {
			t := deepCopyTable(codon.GetCodonTable(id))
			// guard against the C08 leak: a polluted default would make this unit judge the wrong table
			if v := viewOf(t); v.weights() != strings.Repeat("1,", 64) {
				r.Skip(1)
				return
			}
			var n int64
			for _, l := range c7letters(viewOf(t)) {
				n += c7judge(r, fmt.Sprintf("table %d protein %q", id, l), l, t, true, true)
			}
			r.Eval(n)
			r.AddStates(n)
			r.AddNontrivial(n)
			if id == 1 {
				r.Sample(`Optimize("L", table 1) under every answer of Intn(6): each of the six leucine codons for exactly one answer`)
			}
		}})
	}
	// (ii) re-weighted tables
	vals := []int{0, 1, 2, 3, 9, 10, 20}
	type target struct {
		letter string
		k      int
	}
	targets := []target{{"F", 2}, {"I", 3}, {"V", 4}}
	if thorough {
		targets = append(targets, target{"L", 6})
	}
	for _, tg := range targets {
		tg := tg
		vv := vals
		if tg.k == 6 {
			vv = []int{0, 1, 2, 10, 20}
		}
		// split by the first count so that units balance
		for _, first := range vv {
			first := first
			us = append(us, mc.Unit{Name: fmt.Sprintf("reweighted/%s/first=%d", tg.letter, first), Serial: true, Weight: int(pow(len(vv), tg.k-1)) * 2, Run: func(r *mc.Recorder) {
				var n, cases int64
				idx := make([]int, tg.k-1)
				for {
					counts := []int{first}
					for _, i := range idx {
						counts = append(counts, vv[i])
					}
					t, ok := c7reweight(1, tg.letter, counts)
					if !ok {
						panic("synonym count mismatch for " + tg.letter)
					}
					tot := 0
					for _, c := range counts {
						tot += c
					}
					cas := fmt.Sprintf("table 1 with %s counts %v, protein %q", tg.letter, counts, tg.letter)
					n += c7judge(r, cas, tg.letter, t, tot > 0, true)
					// the same table must still encode a neighbour amino acid correctly
					n += c7judge(r, cas+" (other residue M)", "M", t, true, true)
					cases++
					if cases == 5 {
						r.Sample(cas + ": codons with share > 10% chosen in exact proportion to their weight over all answers of the draw")
					}
					i := 0
					for i < len(idx) {
						idx[i]++
						if idx[i] < len(vv) {
							break
						}
						idx[i] = 0
						i++
					}
					if i == len(idx) {
						break
					}
				}
				r.Eval(n)
				r.AddStates(cases)
				r.AddNontrivial(n)
				r.Bound("reweighted", fmt.Sprintf("count vectors over %v for amino acids with 2,3,4%s synonyms, installed by OptimizeTable on a synthetic sequence", vals, map[bool]string{true: ",6", false: ""}[thorough]))
			}})
		}
	}
	// (iii) all short proteins x all answer sequences
	maxLen := tier2(tier, 2, 3)
	for _, id := range []int{1, 4, 11} {
		id := id
		t0 := deepCopyTable(codon.GetCodonTable(id))
		letters := c7letters(viewOf(t0))
		for _, first := range letters {
			first := first
			us = append(us, mc.Unit{Name: fmt.Sprintf("proteins/table=%d/first=%s", id, first), Serial: true, Weight: int(pow(len(letters), maxLen-1)) / 4, Run: func(r *mc.Recorder) {
				t := deepCopyTable(codon.GetCodonTable(id))
				if v := viewOf(t); v.weights() != strings.Repeat("1,", 64) {
					r.Skip(1)
					return
				}
				var n, cases int64
				for l := 1; l <= maxLen; l++ {
					enumStrings(strings.Join(letters, ""), l-1, func(b []byte) {
						p := first + string(b)
						n += c7judge(r, fmt.Sprintf("table %d protein %q", id, p), p, t, true, false)
						cases++
					})
				}
				r.Eval(n)
				r.AddStates(cases)
				r.AddNontrivial(n)
				r.Bound("proteins", fmt.Sprintf("all proteins of length 1..%d over each table's letters x every sequence of answers, tables 1, 4, 11", maxLen))
			}})
		}
	}
	// (iv) unencodable residues
	us = append(us, mc.Unit{Name: "unencodable", Serial: true, Weight: 50, Run: func(r *mc.Recorder) {
		var n int64
		t := deepCopyTable(codon.GetCodonTable(1))
		// letters no table lists, a digit and a punctuation mark; lower-case spellings of encodable residues, blanks and
		// gap characters are left out: an implementation may accept or skip them without contradicting the statement
		bad := []string{"J", "B", "Z", "X", "O", "U", "1", "?", "j", "\u00e9"}
		for _, b := range bad {
			for pos := 0; pos <= 2; pos++ {
				base := []string{"M", "K", "V"}
				p := strings.Join(base[:pos], "") + b + strings.Join(base[pos:], "")
				n += c7judge(r, fmt.Sprintf("table 1 protein %q", p), p, t, false, false)
			}
			n += c7judge(r, fmt.Sprintf("table 1 protein %q", b), b, t, false, false)
		}
		// an amino acid whose synonyms all have zero weight
		for _, tg := range []struct {
			l string
			k int
		}{{"F", 2}, {"I", 3}, {"W", 1}} {
			zt, _ := c7reweight(1, tg.l, make([]int, tg.k))
			for pos := 0; pos <= 2; pos++ {
				base := []string{"M", "K", "V"}
				p := strings.Join(base[:pos], "") + tg.l + strings.Join(base[pos:], "")
				n += c7judge(r, fmt.Sprintf("table 1 with all %s codons at weight 0, protein %q", tg.l, p), p, zt, false, false)
			}
		}
		r.Eval(n)
		r.AddStates(n)
		r.AddNontrivial(n)
		r.Sample(`Optimize("MJKV", table 1): J is not in the table -> an error, never a panic`)
	}})
	// (iv-a2) residues outside ASCII: every code point U+0080..U+07FF, and beyond that every code point up to U+FFFF whose
	// low byte spells an upper-case letter or '*' (thorough: every code point), alone and after M. No table lists one,
	// so each is rejected with an error whatever a byte- or table-indexed shortcut makes of its low byte.
	us = append(us, mc.Unit{Name: "unencodable/non-ascii", Serial: true, Weight: 60, Run: func(r *mc.Recorder) {
		var n int64
		t := deepCopyTable(codon.GetCodonTable(1))
		for cp := rune(0x80); cp <= 0xFFFF; cp++ {
			if cp >= 0xD800 && cp <= 0xDFFF {
				continue
			}
			low := byte(cp)
			if !thorough && cp >= 0x800 && !(low >= 'A' && low <= 'Z') && low != '*' {
				continue
			}
			l := string(cp)
			n += c7judge(r, fmt.Sprintf("table 1 protein %q (U+%04X)", l, cp), l, t, false, false)
			n += c7judge(r, fmt.Sprintf("table 1 protein %q (M, U+%04X)", "M"+l, cp), "M"+l, t, false, false)
		}
		r.Eval(n)
		r.AddStates(n)
		r.AddNontrivial(n)
		r.Bound("unencodable/non-ascii", "every code point U+0080..U+07FF and every code point to U+FFFF whose low byte is A-Z or * (thorough: every code point to U+FFFF), alone and after M, table 1")
	}})
	// (iv-b) every letter that a default table does not encode, for all 25 tables
	us = append(us, mc.Unit{Name: "unencodable/all-tables", Serial: true, Weight: 50, Run: func(r *mc.Recorder) {
		var n int64
		for _, id := range ncbiIDs() {
			t := deepCopyTable(codon.GetCodonTable(id))
			v := viewOf(t)
			if v.weights() != strings.Repeat("1,", 64) {
				r.Skip(1)
				continue
			}
			have := map[string]bool{}
			for _, l := range c7letters(v) {
				have[l] = true
			}
			for _, ch := range "ABCDEFGHIJKLMNOPQRSTUVWXYZ*" {
				l := string(ch)
				if have[l] {
					continue
				}
				n += c7judge(r, fmt.Sprintf("table %d protein %q", id, l), l, t, false, false)
				n += c7judge(r, fmt.Sprintf("table %d protein %q", id, "M"+l), "M"+l, t, false, false)
			}
		}
		r.Eval(n)
		r.AddStates(n)
		r.AddNontrivial(n)
		r.Bound("unencodable/all-tables", "every letter A-Z and * that a default table does not list, alone and after M, for all 25 tables")
	}})
	// (ii-b) one table value over a history: optimise, re-weight in place, optimise again
	for _, first := range vals {
		first := first
		us = append(us, mc.Unit{Name: fmt.Sprintf("reweight-in-place/F/first=%d", first), Serial: true, Weight: 300, Run: func(r *mc.Recorder) {
			var n, cases int64
			base := deepCopyTable(codon.GetCodonTable(1))
			cods := viewOf(base).synonyms()["F"]
			mk := func(c0, c1 int) string {
				cnt := map[string]int{}
				for _, c := range allCodons {
					cnt[c] = 1
				}
				cnt[cods[0]], cnt[cods[1]] = c0, c1
				return seqForCounts(cnt)
			}
			for _, a1 := range vals {
				for _, b0 := range vals {
					for _, b1 := range vals {
						t := deepCopyTable(base)
						t = t.OptimizeTable(mk(first, a1))
						n += c7judge(r, fmt.Sprintf("table 1 re-weighted F=[%d %d], protein F", first, a1), "F", t, first+a1 > 0, true)
						t2 := t.OptimizeTable(mk(b0, b1)) // in place, same table value
						cas := fmt.Sprintf("table 1: optimise, re-weight in place F=[%d %d]->[%d %d], optimise again", first, a1, b0, b1)
						n += c7judge(r, cas, "F", t2, b0+b1 > 0, true)
						n += c7judge(r, cas+" (receiver)", "F", t, b0+b1 > 0, true)
						cases++
					}
				}
			}
			r.Eval(n)
			r.AddStates(cases)
			r.AddNontrivial(n)
			r.Bound("reweight-in-place", "sequences optimise; OptimizeTable(in place); optimise on one table value, all pairs of F count vectors over the value set")
		}})
	}
	// (ii-c) weights at the boundary of the 10% threshold: for every total T, the counts just below, at and just above
	// T/10 for one codon of a two-codon amino acid (shares such as 11/109 = 10.09% are eligible, 10/100 is not)
	maxT := tier2(tier, 260, 700)
	for part := 0; part < 8; part++ {
		part := part
		us = append(us, mc.Unit{Name: fmt.Sprintf("threshold-boundary/part=%d", part), Serial: true, Weight: maxT / 2, Run: func(r *mc.Recorder) {
			var n, cases int64
			for T := 2 + part; T <= maxT; T += 8 {
				for d := -1; d <= 2; d++ {
					w := T/10 + d
					if w < 0 || w > T {
						continue
					}
					for _, swap := range []bool{false, true} {
						counts := []int{w, T - w}
						if swap {
							counts = []int{T - w, w}
						}
						t, ok := c7reweight(1, "F", counts)
						if !ok {
							panic("synonym count mismatch for F")
						}
						n += c7judge(r, fmt.Sprintf("table 1 with F counts %v, protein \"F\"", counts), "F", t, true, true)
						cases++
					}
				}
			}
			r.Eval(n)
			r.AddStates(cases)
			r.AddNontrivial(n)
			r.Bound("threshold-boundary", fmt.Sprintf("every total 2..%d x the four counts around a tenth of it x both codons of F, all answers of the draw", maxT))
		}})
	}
	// (ii-d) large weights (counts from genome-scale coding sequences): tables assembled directly, every answer of the draw
	for wi, w := range [][]int{{70000, 30000}, {65535, 1}, {65536, 65536}, {100000, 11112}, {40000, 25535}, {1 << 17, 1 << 16}} {
		wi, w := wi, w
		us = append(us, mc.Unit{Name: fmt.Sprintf("large-weights/%d", wi), Serial: true, Weight: (w[0] + w[1]) / 500, Run: func(r *mc.Recorder) {
			t := deepCopyTable(codon.GetCodonTable(1))
			cods := viewOf(t).synonyms()["F"]
			for i := range t.AminoAcids {
				for j := range t.AminoAcids[i].Codons {
					for k, c := range cods {
						if t.AminoAcids[i].Codons[j].Triplet == c {
							t.AminoAcids[i].Codons[j].Weight = w[k]
						}
					}
				}
			}
			n := c7judge(r, fmt.Sprintf("table 1 with F weights %v assembled directly, protein \"F\"", w), "F", t, true, true)
			r.Eval(n)
			r.AddStates(1)
			r.AddNontrivial(n)
			r.Bound("large-weights", "six pairs of weights between 2^16 and 2^18 for the two codons of F, all answers of the draw")
		}})
	}
	us = append(us, historyUnit("api-histories", append(codonMenu(), c7menu()...), 2))
	// (v) every output of the random protein generator at small lengths
	maxGen := tier2(tier, 4, 5)
	us = append(us, mc.Unit{Name: "generator", Serial: true, Weight: 400, Run: func(r *mc.Recorder) {
		t := deepCopyTable(codon.GetCodonTable(11))
		v := viewOf(t)
		letters := map[string]bool{}
		for _, l := range c7letters(v) {
			letters[l] = true
		}
		var n int64
		for length := 3; length <= maxGen; length++ {
			prots := map[string]bool{}
			vrand.Enabled = true
			st := mc.Explore(mc.Options{DevBound: -1, PreemptBound: -1}, func(c *mc.Ctx) bool {
				var p string
				var err error
				if pn := catch(func() { p, err = random.ProteinSequence(length, 7) }); pn != "" || err != nil {
					r.Failf("generator", fmt.Sprintf("ProteinSequence(%d) answers=%v", length, c.Choices()), nil, "a protein", fmt.Sprint(pn, err))
					return true
				}
				prots[p] = true
				return true
			})
			vrand.Enabled = false
			r.AddTransitions(int64(st.Transitions))
			if len(prots) < 2 {
				r.Cap("random.ProteinSequence does not draw through the package-level source: its outputs cannot be enumerated")
			}
			var ps []string
			for p := range prots {
				ps = append(ps, p)
			}
			sort.Strings(ps)
			for _, p := range ps {
				enc := true
				for _, ch := range p {
					if !letters[string(ch)] {
						enc = false
					}
				}
				// one execution per protein is enough for the no-panic / round-trip clause; take every answer for short ones
				n += c7judge(r, fmt.Sprintf("table 11 generated protein %q", p), p, t, enc, false)
			}
			r.Bound(fmt.Sprintf("generator/n=%d", length), fmt.Sprintf("%d distinct outputs of ProteinSequence(%d, .) under every sequence of Intn answers, each fed to Optimize under every answer sequence", len(ps), length))
		}
		r.Eval(n)
		r.AddStates(n)
		r.AddNontrivial(n)
	}})
	return us
}

func init() {
	mc.Register(&mc.Harness{ID: "C07", Units: c07units,
		Rule: "executions of Optimize, one per (table, protein, sequence of answers of the random source); every answer of every draw is enumerated, so proportionality is an exact count; non-trivial = all of them (each is a distinct answer sequence)",
		Assume: []string{"math/rand is replaced (build-time overlay) in transform/codon, random and mroth/weightedrand by a source whose every draw is an explorer choice; uniformity of the real math/rand.Intn is trusted",
			"tables are private deep copies, so the C08 storage leak cannot pollute them; units that find a polluted default count themselves as skipped_upstream"}})
}
