package props

import (
	"fmt"
	"strings"

	"verif/mc"
	"verif/sched"
)

// once runs body for the single default execution (alternative 0 at every
// choice point, i.e. the non-preemptive default schedule).
func once(body func(c *mc.Ctx)) mc.Stats {
	return mc.Explore(mc.Options{DevBound: 0, PreemptBound: 0, MaxExecs: 1}, func(c *mc.Ctx) bool { body(c); return false })
}

// catch runs f and reports a panic of the implementation as a string.
func catch(f func()) (panicked string) {
	defer func() {
		if e := recover(); e != nil {
			if fb, ok := e.(sched.ForeignBlock); ok {
				panic(fb) // not a panic of the implementation: the unit runner records the unit as not decided
			}
			panicked = fmt.Sprint(e)
			if panicked == "" {
				panicked = "panic"
			}
		}
	}()
	f()
	return ""
}

// enumStrings calls f with every string of exactly n letters over alpha.
func enumStrings(alpha string, n int, f func(s []byte)) {
	buf := make([]byte, n)
	idx := make([]int, n)
	for i := range buf {
		buf[i] = alpha[0]
	}
	for {
		f(buf)
		i := n - 1
		for i >= 0 {
			idx[i]++
			if idx[i] < len(alpha) {
				buf[i] = alpha[idx[i]]
				break
			}
			idx[i] = 0
			buf[i] = alpha[0]
			i--
		}
		if i < 0 {
			return
		}
	}
}

func pow(b, e int) int64 {
	r := int64(1)
	for i := 0; i < e; i++ {
		r *= int64(b)
	}
	return r
}

func q(s string) string {
	if len(s) > 80 {
		return fmt.Sprintf("%q…(len %d)", s[:80], len(s))
	}
	return fmt.Sprintf("%q", s)
}

func tier2(tier string, quick, thorough int) int {
	if strings.EqualFold(tier, "thorough") {
		return thorough
	}
	return quick
}
