//go:build c13

package props

import (
	"bytes"
	"compress/gzip"
	"fmt"
	"io"
	"os"
	"path/filepath"
	"strings"

	"github.com/TimothyStiles/poly/io/fasta"

	"verif/mc"
	"verif/sched"
)

// chunkReader returns the data in pieces ending at the given cut positions.
type chunkReader struct {
	data []byte
	cuts []int
	pos  int
}

func (c *chunkReader) Read(p []byte) (int, error) {
	if c.pos >= len(c.data) {
		return 0, io.EOF
	}
	end := len(c.data)
	for _, k := range c.cuts {
		if k > c.pos && k < len(c.data) {
			end = k
			break
		}
	}
	n := copy(p, c.data[c.pos:end])
	c.pos += n
	return n, nil
}

var c13names = []string{"a", "a b|c [d]", ">x", ";not a comment"}

func c13seq(i int) string {
	switch i {
	case 0:
		return ""
	case 1:
		return "A"
	case 2:
		return "ACGT"
	case 3:
		return strings.Repeat("ACGTTGCAAC", 13)
	case 4:
		return strings.Repeat("ACGTTGCAGT", 7000) // 70 000 letters: beyond a 64 KiB line buffer
	default:
		return strings.Repeat("TTGACGTCAA", 30000) // 300 000 letters
	}
}

type c13layout struct {
	wrap     int // 0 = none
	blank    int // 0 none, 1 between records, 2 inside sequences
	comment  int // 0 none, 1 before first, 2 between records, 3 inside sequences
	crlf     bool
	noFinal  bool
	gz       bool
	useBuild bool // text from fasta.Build instead of the independent writer
}

func (l c13layout) String() string {
	return fmt.Sprintf("wrap=%d blank=%d comment=%d crlf=%v nofinal=%v gz=%v build=%v", l.wrap, l.blank, l.comment, l.crlf, l.noFinal, l.gz, l.useBuild)
}

var c13prevOut []byte
var c13prevCopy string

// c13stable: text returned by an earlier Build must not change when Build is called again.
func c13stable(r *mc.Recorder) {
	if c13prevOut != nil && string(c13prevOut) != c13prevCopy {
		r.Failf("written-text-stable", "text of an earlier fasta.Build re-read after a later Build", nil, q(c13prevCopy), q(string(c13prevOut)))
	}
}

func c13write(recs []fasta.Fasta, l c13layout) []byte {
	if l.useBuild {
		out := fasta.Build(recs)
		if len(out) < 4096 {
			c13prevOut, c13prevCopy = out, string(out)
		}
		return out
	}
	nl := "\n"
	if l.crlf {
		nl = "\r\n"
	}
	var b bytes.Buffer
	if l.comment == 1 {
		b.WriteString("; generated file" + nl)
	}
	for ri, r := range recs {
		if ri > 0 && l.blank == 1 {
			b.WriteString(nl)
		}
		if ri > 0 && l.comment == 2 {
			b.WriteString(";; next record > follows" + nl)
		}
		b.WriteString(">" + r.Name + nl)
		s := r.Sequence
		var lines []string
		if l.wrap == 0 {
			lines = []string{s}
		} else {
			for i := 0; i < len(s); i += l.wrap {
				end := i + l.wrap
				if end > len(s) {
					end = len(s)
				}
				lines = append(lines, s[i:end])
			}
		}
		for li, ln := range lines {
			b.WriteString(ln + nl)
			if li == 0 && l.blank == 2 {
				b.WriteString(nl)
			}
			if li == 0 && l.comment == 3 {
				b.WriteString(";inside" + nl)
			}
		}
	}
	out := b.Bytes()
	if l.noFinal {
		out = bytes.TrimSuffix(out, []byte(nl))
	}
	return out
}

func c13gz(b []byte) []byte {
	var z bytes.Buffer
	w := gzip.NewWriter(&z)
	w.Write(b)
	w.Close()
	return z.Bytes()
}

func c13equal(a, b []fasta.Fasta) bool {
	if len(a) != len(b) {
		return false
	}
	for i := range a {
		if a[i] != b[i] {
			return false
		}
	}
	return true
}

func c13show(l []fasta.Fasta) string {
	var p []string
	for _, f := range l {
		p = append(p, fmt.Sprintf("{%q len=%d %s}", f.Name, len(f.Sequence), q(f.Sequence)))
	}
	return strings.Join(p, " ")
}

// c13parse runs fasta.Parse on the default schedule of the controlled scheduler
// (so that a panic or a hang of its internal producer goroutine is observed
// instead of killing or blocking the harness).
func c13parse(text []byte, l c13layout, cuts []int) (got []fasta.Fasta, panicked string) {
	var rd io.Reader = &chunkReader{data: text, cuts: cuts}
	if l.gz {
		z, err := gzip.NewReader(&chunkReader{data: c13gz(text), cuts: cuts})
		if err != nil {
			panic(err)
		}
		rd = z
	}
	prev := mc.Cur
	once(func(c *mc.Ctx) {
		out := sched.Run(c, sched.Options{Horizon: 200000}, func() { got = fasta.Parse(rd) })
		if out.String() != "ok" {
			panicked = out.String()
		}
	})
	mc.Cur = prev
	return
}

func c13inputUnits(tier string) []mc.Unit {
	var us []mc.Unit
	nseq := tier2(tier, 5, 6)
	maxList := tier2(tier, 2, 3)
	devBound := tier2(tier, 2, 3)
	var recs []fasta.Fasta
	for _, n := range c13names {
		for s := 0; s < nseq; s++ {
			recs = append(recs, fasta.Fasta{Name: n, Sequence: c13seq(s)})
		}
	}
	// units: one per first record (lists starting with it)
	for fi := range recs {
		fi := fi
		big := len(recs[fi].Sequence) > 1000
		w := 20
		if big {
			w = 400
		}
		us = append(us, mc.Unit{Name: fmt.Sprintf("inputs/first=%d", fi), Weight: w, Serial: true, Run: func(r *mc.Recorder) {
			var lists [][]fasta.Fasta
			lists = append(lists, []fasta.Fasta{recs[fi]})
			if maxList >= 2 {
				for j := range recs {
					// keep at most one very long sequence per list except in the dedicated pair
					if big && len(recs[j].Sequence) > 1000 && j != fi {
						continue
					}
					lists = append(lists, []fasta.Fasta{recs[fi], recs[j]})
					if maxList >= 3 && !big && len(recs[j].Sequence) < 1000 {
						for k := 0; k < len(recs); k += 3 {
							if len(recs[k].Sequence) < 1000 {
								lists = append(lists, []fasta.Fasta{recs[fi], recs[j], recs[k]})
							}
						}
					}
				}
			}
			var cnt, nt int64
			for _, list := range lists {
				list := list
				st := mc.Explore(mc.Options{DevBound: devBound, PreemptBound: -1}, func(c *mc.Ctx) bool {
					var l c13layout
					l.useBuild = c.Dev("writer", 2) == 0
					if !l.useBuild {
						// the independent writer's own layout choices are free once it is selected
						l.wrap = []int{0, 1, 3, 60}[c.Dev("wrap", 4)]
						l.blank = c.Dev("blank", 3)
						l.comment = c.Dev("comment", 4)
						l.crlf = c.Dev("crlf", 2) == 1
						l.noFinal = c.Dev("nofinal", 2) == 1
					}
					l.gz = c.Dev("gz", 2) == 1
					c13stable(r)
					text := c13write(list, l)
					var cuts []int
					if ch := c.Dev("chunk", 3); ch == 1 {
						cuts = []int{len(text) / 2}
					} else if ch == 2 {
						cuts = []int{1, len(text) / 3, len(text) - 1}
					}
					got, p := c13parse(text, l, cuts)
					cnt++
					if l.wrap != 0 || l.blank != 0 || l.comment != 0 || l.crlf || l.gz {
						nt++
					}
					tags := []string{}
					for _, f := range list {
						if l.wrap == 0 && len(f.Sequence) > 65536 {
							tags = append(tags, "line>64KiB")
						}
					}
					cas := fmt.Sprintf("records=%s layout[%s] cuts=%v", c13show(list), l, cuts)
					if p != "" {
						r.Failf("no-panic", cas, tags, c13show(list), "panic: "+p)
					} else if !c13equal(got, list) {
						clause := "write-read"
						if !l.useBuild {
							clause = "layout-independent"
						}
						r.Failf(clause, cas, tags, c13show(list), c13show(got))
					}
					if cnt == 40 {
						r.Sample(cas + "\n" + q(string(text)))
					}
					return true
				})
				r.AddTransitions(int64(st.Transitions))
			}
			r.Eval(cnt)
			r.AddStates(cnt)
			r.AddNontrivial(nt)
			r.Bound("inputs", fmt.Sprintf("record lists of length <=%d over %d names x %d sequences (to %d letters); layouts with <=%d deviations from {Build text, one chunk, plain}", maxList, len(c13names), nseq, len(c13seq(nseq-1)), devBound))
		}})
	}
	// reader chunking: every pair of split points on small files
	us = append(us, mc.Unit{Name: "chunking", Weight: 100, Run: func(r *mc.Recorder) {
		var cnt int64
		lists := [][]fasta.Fasta{
			{{Name: "a", Sequence: "ACGT"}},
			{{Name: "a b", Sequence: "ACGTAC"}, {Name: ">x", Sequence: ""}},
			{{Name: "n1", Sequence: "AC"}, {Name: "n2", Sequence: "GTGT"}, {Name: "n3", Sequence: "A"}},
		}
		for _, list := range lists {
			for _, l := range []c13layout{{useBuild: true}, {wrap: 3, crlf: true}, {wrap: 1, blank: 2, comment: 3}} {
				text := c13write(list, l)
				n := len(text)
				for i := 0; i <= n; i++ {
					for j := i; j <= n; j++ {
						got, p := c13parse(text, l, []int{i, j})
						cnt++
						if p != "" || !c13equal(got, list) {
							r.Failf("chunking-independent", fmt.Sprintf("records=%s layout[%s] cuts=%d,%d", c13show(list), l, i, j), nil, c13show(list), c13show(got)+p)
						}
					}
				}
			}
		}
		// all compositions of a tiny file
		text := []byte(">a\nAC\nG\n>b\nT")
		want := []fasta.Fasta{{Name: "a", Sequence: "ACG"}, {Name: "b", Sequence: "T"}}
		for m := 0; m < 1<<(len(text)-1); m++ {
			var cuts []int
			for i := 0; i < len(text)-1; i++ {
				if m&(1<<i) != 0 {
					cuts = append(cuts, i+1)
				}
			}
			got, p := c13parse(text, c13layout{}, cuts)
			cnt++
			if p != "" || !c13equal(got, want) {
				r.Failf("chunking-independent", fmt.Sprintf("text=%q cuts=%v", text, cuts), nil, c13show(want), c13show(got)+p)
			}
		}
		r.Eval(cnt)
		r.AddStates(cnt)
		r.AddTransitions(cnt)
		r.AddNontrivial(cnt)
		r.Sample("every pair of read boundaries (i,j) of small FASTA files and all 2^(n-1) read-size compositions of a 13-byte file")
	}})
	// file wrappers
	us = append(us, mc.Unit{Name: "files", Weight: 20, Run: func(r *mc.Recorder) {
		dir, err := os.MkdirTemp("", "c13")
		if err != nil {
			panic(err)
		}
		defer os.RemoveAll(dir)
		list := []fasta.Fasta{{Name: "a b|c [d]", Sequence: c13seq(3)}, {Name: ">x", Sequence: "ACGT"}, {Name: "e", Sequence: ""}}
		path := filepath.Join(dir, "t.fasta")
		var got []fasta.Fasta
		p := catch(func() {
			fasta.Write(list, path)
			got = fasta.Read(path)
		})
		if p != "" || !c13equal(got, list) {
			r.Failf("write-read", "Write/Read via file", nil, c13show(list), c13show(got)+p)
		}
		// writing a shorter list over a longer one at the same path
		short := []fasta.Fasta{{Name: "only", Sequence: "ACGT"}}
		p = catch(func() {
			fasta.Write(list, path)
			fasta.Write(short, path)
			got = fasta.Read(path)
		})
		if p != "" || !c13equal(got, short) {
			r.Failf("write-read", "Write of a long list, then Write of a short list to the same path, then Read", nil, c13show(short), c13show(got)+p)
		}
		fasta.Write(list, path)
		b, _ := os.ReadFile(path)
		gzp := filepath.Join(dir, "t.fasta.gz")
		os.WriteFile(gzp, c13gz(b), 0o644)
		p = catch(func() { got = fasta.ReadGz(gzp) })
		if p != "" || !c13equal(got, list) {
			r.Failf("gzip-independent", "ReadGz via file", nil, c13show(list), c13show(got)+p)
		}
		for _, gz := range []bool{false, true} {
			ch := make(chan fasta.Fasta, 2)
			var res []fasta.Fasta
			p = catch(func() {
				if gz {
					fasta.ReadGzConcurrent(gzp, ch)
				} else {
					fasta.ReadConcurrent(path, ch)
				}
				for f := range ch {
					res = append(res, f)
				}
			})
			if p != "" || !c13equal(res, list) {
				r.Failf("stream", fmt.Sprintf("ReadConcurrent gz=%v via file", gz), nil, c13show(list), c13show(res)+p)
			}
		}
		r.Eval(4)
		r.AddStates(4)
		r.AddTransitions(4)
	}})
	// names with blanks and other odd characters at either end and inside (a name is the whole header line after '>')
	us = append(us, mc.Unit{Name: "names", Weight: 10, Run: func(r *mc.Recorder) {
		var cnt int64
		names := []string{"trailing blank ", "trailing tab\t", " leading blank", "\tleading tab", "two  blanks", "a\tb", "", " ", ">", ">>x", ";semi", "x;y", "a>b", "name with | pipes [and] {braces}", "\u00e9\u4e2d", "ends with backslash\\", "#hash", "quote\"s"}
		for _, n1 := range names {
			for _, n2 := range []string{"plain", n1} {
				list := []fasta.Fasta{{Name: n1, Sequence: "ACGTACGT"}, {Name: n2, Sequence: "TTGA"}}
				for _, viaBuild := range []bool{true, false} {
					var text []byte
					if viaBuild {
						text = fasta.Build(list)
					} else {
						text = []byte(">" + n1 + "\r\nACGT\r\nACGT\r\n>" + n2 + "\r\nTTGA\r\n")
					}
					var got []fasta.Fasta
					p := catch(func() { got = fasta.Parse(bytes.NewReader(text)) })
					cnt++
					if p != "" || !c13equal(got, list) {
						r.Failf("write-read", fmt.Sprintf("names %q and %q, text from Build=%v", n1, n2, viaBuild), []string{"names"}, c13show(list), c13show(got)+p)
					}
				}
			}
		}
		r.Eval(cnt)
		r.AddStates(cnt)
		r.AddTransitions(cnt)
		r.AddNontrivial(cnt)
		r.Bound("names", fmt.Sprintf("%d names (blanks and tabs at either end, sigils of the format, non-ASCII) alone and repeated, through Build and an independent CRLF layout", len(names)))
	}})
	// one long line of every kind (name, comment before / between / inside records, sequence) at lengths around the
	// usual buffer sizes and in between
	us = append(us, mc.Unit{Name: "long-lines", Weight: 60, Run: func(r *mc.Recorder) {
		var cnt int64
		for _, L := range []int{100, 1000, 4095, 4096, 4097, 5500, 10000, 65535, 65536, 65537, 70000, tier2(tier, 150000, 1100000)} {
			for kind := 0; kind < 5; kind++ {
				for _, crlf := range []bool{false, true} {
					nl := "\n"
					if crlf {
						nl = "\r\n"
					}
					long := lcgString("ACGTN", L, uint32(L))
					recs := []fasta.Fasta{{Name: "first record", Sequence: "ACGTACGTAC"}, {Name: "second", Sequence: "TTGACA"}}
					var text string
					switch kind {
					case 0:
						recs[0].Name = "n" + long
						text = ">" + recs[0].Name + nl + "ACGTACGTAC" + nl + ">second" + nl + "TTGACA" + nl
					case 1:
						text = ";" + long + nl + ">first record" + nl + "ACGTACGTAC" + nl + ">second" + nl + "TTGACA" + nl
					case 2:
						text = ">first record" + nl + "ACGTACGTAC" + nl + ";" + long + nl + ">second" + nl + "TTGACA" + nl
					case 3:
						text = ">first record" + nl + "ACGTA" + nl + ";" + long + nl + "CGTAC" + nl + ">second" + nl + "TTG" + nl + ";x" + nl + "ACA" + nl
					case 4:
						recs[1].Sequence = long + "TTGACA"
						text = ">first record" + nl + "ACGTACGTAC" + nl + ">second" + nl + long + nl + "TTGACA" + nl
					}
					what := []string{"name line", "comment line before the first record", "comment line between records", "comment line inside a sequence", "sequence line"}[kind]
					for _, chunk := range []int{0, 1 << 12, 1000} {
						var got []fasta.Fasta
						p := catch(func() {
							if chunk == 0 {
								got = fasta.Parse(strings.NewReader(text))
							} else {
								var cuts []int
								for c := chunk; c < len(text); c += chunk {
									cuts = append(cuts, c)
								}
								got = fasta.Parse(&chunkReader{data: []byte(text), cuts: cuts})
							}
						})
						cnt++
						if p != "" || !c13equal(got, recs) {
							r.Failf("layout-independent", fmt.Sprintf("%s of %d bytes, crlf=%v, reads of %d bytes", what, L+1, crlf, chunk), []string{"long-line"}, c13show(recs), c13show(got)+p)
						}
					}
				}
			}
		}
		r.Eval(cnt)
		r.AddStates(cnt)
		r.AddTransitions(cnt)
		r.AddNontrivial(cnt)
		r.Bound("long-lines", "one line of each of 5 kinds at 12 lengths (100 .. 150 000 bytes; thorough 1 100 000), LF and CRLF, whole and chunked reads")
	}})
	// sequence-line lengths: every length 1..L, and every multiple of 1 KiB (and its neighbours) up to 300 KiB, with LF and
	// CRLF line ends (a reader that works in pieces of any size meets a line end at every offset of a piece)
	for part := 0; part < 4; part++ {
		part := part
		us = append(us, mc.Unit{Name: fmt.Sprintf("line-lengths/part=%d", part), Weight: 80, Run: func(r *mc.Recorder) {
			var cnt int64
			var lens []int
			for n := 1; n <= tier2(tier, 9000, 20000); n++ {
				lens = append(lens, n)
			}
			for k := 1; k*1024 <= 300*1024; k++ {
				for d := -2; d <= 2; d++ {
					if k*1024+d > tier2(tier, 9000, 20000) {
						lens = append(lens, k*1024+d)
					}
				}
			}
			full := lcgString("ACGTN", 310*1024, 9)
			for i, n := range lens {
				if i%4 != part {
					continue
				}
				for _, nl := range []string{"\n", "\r\n"} {
					line := full[len(full)-n:]
					recs := []fasta.Fasta{{Name: "r1", Sequence: line + "ACGT"}, {Name: "r2", Sequence: "TT"}}
					text := ">r1" + nl + line + nl + "ACGT" + nl + ">r2" + nl + "TT" + nl
					var got []fasta.Fasta
					p := catch(func() { got = fasta.Parse(strings.NewReader(text)) })
					cnt++
					if p != "" || !c13equal(got, recs) {
						r.Failf("layout-independent", fmt.Sprintf("sequence line of %d letters, CRLF=%v", n, nl != "\n"), []string{"line-length"}, c13show(recs), c13show(got)+p)
					}
				}
				if r.Enough() {
					break
				}
			}
			r.Eval(cnt)
			r.AddStates(cnt)
			r.AddTransitions(cnt)
			r.AddNontrivial(cnt)
			r.Bound("line-lengths", fmt.Sprintf("every line length 1..%d and every multiple of 1 KiB (+-2) up to 300 KiB, LF and CRLF", tier2(tier, 9000, 20000)))
		}})
	}
	// gzip files written as several members (bgzip, pigz -i, cat a.gz b.gz), through both gzip entry points
	us = append(us, mc.Unit{Name: "files/multi-member-gzip", Weight: 20, Run: func(r *mc.Recorder) {
		dir, err := os.MkdirTemp("", "c13mm")
		if err != nil {
			panic(err)
		}
		defer os.RemoveAll(dir)
		var cnt int64
		var list []fasta.Fasta
		for i := 0; i < 6; i++ {
			list = append(list, fasta.Fasta{Name: fmt.Sprintf("rec%d", i), Sequence: lcgString("ACGT", 50+37*i, uint32(i))})
		}
		text := fasta.Build(list)
		for _, members := range []int{2, 3, 6} {
			var gzb []byte
			for m := 0; m < members; m++ {
				lo, hi := m*len(text)/members, (m+1)*len(text)/members
				gzb = append(gzb, c13gz(text[lo:hi])...)
			}
			path := filepath.Join(dir, fmt.Sprintf("m%d.fasta.gz", members))
			os.WriteFile(path, gzb, 0o644)
			var got []fasta.Fasta
			p := catch(func() { got = fasta.ReadGz(path) })
			cnt++
			if p != "" || !c13equal(got, list) {
				r.Failf("gzip-independent", fmt.Sprintf("ReadGz of a gzip file written as %d members", members), []string{"multi-member"}, c13show(list), c13show(got)+p)
			}
			ch := make(chan fasta.Fasta, 3)
			var res []fasta.Fasta
			p = catch(func() {
				fasta.ReadGzConcurrent(path, ch)
				for f := range ch {
					res = append(res, f)
				}
			})
			cnt++
			if p != "" || !c13equal(res, list) {
				r.Failf("stream", fmt.Sprintf("ReadGzConcurrent of a gzip file written as %d members", members), []string{"multi-member"}, c13show(list), c13show(res)+p)
			}
		}
		r.Eval(cnt)
		r.AddStates(cnt)
		r.AddTransitions(cnt)
		r.AddNontrivial(cnt)
		r.Bound("files/multi-member-gzip", "a 6-record file written as 2, 3 and 6 gzip members (member boundaries inside records), ReadGz and ReadGzConcurrent")
	}})
	// big files through every file entry point, in every scratch directory (distinct file systems)
	for _, mb := range []int{1, tier2(tier, 12, 40)} {
		mb := mb
		us = append(us, mc.Unit{Name: fmt.Sprintf("big-files/%dMB", mb), Weight: 100 * mb, Run: func(r *mc.Recorder) {
			var cnt int64
			nrec := mb * 1000000 / 300000
			if nrec < 3 {
				nrec = 3
			}
			var list []fasta.Fasta
			for i := 0; i <= nrec; i++ {
				list = append(list, fasta.Fasta{Name: fmt.Sprintf("rec%d len300000", i), Sequence: lcgString("ACGT", 300000-i, uint32(i))})
			}
			for _, root := range scratchRoots() {
				dir, err := os.MkdirTemp(root, "verif-scratch-c13-")
				if err != nil {
					continue
				}
				func() {
					defer os.RemoveAll(dir)
					path := filepath.Join(dir, "big.fasta")
					var got []fasta.Fasta
					p := catch(func() {
						fasta.Write(list, path)
						got = fasta.Read(path)
					})
					cnt++
					if p != "" || !c13equal(got, list) {
						r.Failf("write-read", fmt.Sprintf("Write/Read of %d records of about 300 000 letters (%d MB) under %s", len(list), mb, root), []string{"big-file"}, fmt.Sprintf("%d records", len(list)), fmt.Sprintf("%d records %s", len(got), p))
					}
					b, _ := os.ReadFile(path)
					gzp := filepath.Join(dir, "big.fasta.gz")
					os.WriteFile(gzp, c13gz(b), 0o644)
					p = catch(func() { got = fasta.ReadGz(gzp) })
					cnt++
					if p != "" || !c13equal(got, list) {
						r.Failf("gzip-independent", fmt.Sprintf("ReadGz of %d records (%d MB) under %s", len(list), mb, root), []string{"big-file"}, fmt.Sprintf("%d records", len(list)), fmt.Sprintf("%d records %s", len(got), p))
					}
					for _, gz := range []bool{false, true} {
						for _, capa := range []int{0, 1000} {
							ch := make(chan fasta.Fasta, capa)
							var res []fasta.Fasta
							p = catch(func() {
								if gz {
									fasta.ReadGzConcurrent(gzp, ch)
								} else {
									fasta.ReadConcurrent(path, ch)
								}
								for f := range ch {
									res = append(res, f)
								}
							})
							cnt++
							if p != "" || !c13equal(res, list) {
								r.Failf("stream", fmt.Sprintf("ReadConcurrent gz=%v cap=%d of %d records (%d MB) under %s", gz, capa, len(list), mb, root), []string{"big-file"}, fmt.Sprintf("%d records", len(list)), fmt.Sprintf("%d records %s", len(res), p))
							}
						}
					}
				}()
			}
			r.Eval(cnt)
			r.AddStates(cnt)
			r.AddTransitions(cnt)
			r.AddNontrivial(cnt)
			r.Bound("big-files", fmt.Sprintf("files of 1 and %d MB through Write/Read/ReadGz/ReadConcurrent/ReadGzConcurrent in %v", tier2(tier, 12, 40), scratchRoots()))
		}})
	}
	return us
}

// --- schedules ------------------------------------------------------------------

func c13schedUnits(tier string) []mc.Unit {
	var us []mc.Unit
	small := []fasta.Fasta{{Name: "r1", Sequence: "ACGT"}, {Name: "r 2", Sequence: ""}, {Name: ">r3", Sequence: "GATTACA"}}
	for i := 3; i < 200; i++ {
		small = append(small, fasta.Fasta{Name: fmt.Sprintf("rec%03d", i), Sequence: strings.Repeat("ACGTA", i%4) + "G"})
	}
	type nc struct{ n, capa int }
	var combos []nc
	for n := 1; n <= 3; n++ {
		for _, capa := range []int{0, 1, 2, n, 1000} {
			if capa == n && (n <= 2) {
				continue
			}
			combos = append(combos, nc{n, capa})
		}
	}
	// longer lists: a consumer can fall far behind the producer
	for _, n := range []int{8, 24, tier2(tier, 80, 200)} {
		for _, capa := range []int{0, 1, 5} {
			combos = append(combos, nc{n, capa})
		}
	}
	{
		for _, x := range combos {
			n, capa := x.n, x.capa
			us = append(us, mc.Unit{Name: fmt.Sprintf("schedules/stream/n=%d/cap=%d", n, capa), Serial: true, Weight: 30, Run: func(r *mc.Recorder) {
				list := small[:n]
				text := c13write(list, c13layout{wrap: 3, comment: 2})
				outcomes := map[string]bool{}
				st := mc.Explore(mc.Options{DevBound: 0, PreemptBound: -1, Prune: true, Deadline: r.TimeUp}, func(c *mc.Ctx) bool {
					var got []fasta.Fasta
					closedSeen := 0
					out := sched.Run(c, sched.Options{Horizon: 5000}, func() {
						ch := make(chan fasta.Fasta, capa)
						sched.Go(func() { fasta.ParseConcurrent(bytes.NewReader(text), ch) })
						for {
							f, ok := sched.Recv2(ch)
							if !ok {
								closedSeen++
								break
							}
							got = append(got, f)
						}
					})
					if out.Cut {
						return true
					}
					o := out.String() + "|" + c13show(got)
					outcomes[o] = true
					r.Outcome(fmt.Sprint(n, capa, o))
					cas := fmt.Sprintf("stream n=%d cap=%d schedule=%v", n, capa, c.Choices())
					if out.String() != "ok" {
						r.Fail(mc.Failure{Clause: "stream-terminates", Case: cas, Choices: c.Choices(), Expected: "producer and consumer finish, channel closed once", Got: out.String()})
						return !r.Enough()
					}
					if !c13equal(got, list) || closedSeen != 1 {
						r.Fail(mc.Failure{Clause: "stream-records", Case: cas, Choices: c.Choices(), Expected: c13show(list) + " then closed", Got: c13show(got)})
						return !r.Enough()
					}
					return true
				})
				r.AddExplore(st, fmt.Sprintf("stream n=%d cap=%d", n, capa))
				r.AddNontrivial(int64(st.Execs))
				r.Bound(fmt.Sprintf("schedules/stream/n=%d/cap=%d", n, capa), fmt.Sprintf("all interleavings of producer and consumer: %d executions, %d states", st.Execs, st.States))
				if n == 2 && capa == 1 {
					r.Sample(fmt.Sprintf("ParseConcurrent on %q into a channel of capacity %d with a consumer task, every interleaving", text, capa))
				}
			}})
		}
	}
	// a record of more than 128 KiB ahead of short ones: same records, same order, through Parse and through
	// the stream under every interleaving
	us = append(us, mc.Unit{Name: "schedules/big-record-first", Serial: true, Weight: 200, Run: func(r *mc.Recorder) {
		list := []fasta.Fasta{{Name: "big", Sequence: strings.Repeat("ACGTTGCAGTCA", 12000)}, {Name: "s1", Sequence: "ACGT"}, {Name: "s2", Sequence: "GG"}, {Name: "big2", Sequence: strings.Repeat("TTGACGTCAATC", 11500)}, {Name: "s3", Sequence: "A"}}
		for _, l := range []c13layout{{useBuild: true}, {wrap: 60}} {
			text := c13write(list, l)
			got, p := c13parse(text, l, nil)
			if p != "" || !c13equal(got, list) {
				r.Failf("write-read", "records of 144 000 and 138 000 letters among short ones, layout "+l.String(), nil, c13show(list), c13show(got)+p)
			}
			for _, capa := range []int{0, 1, 1000} {
				st := mc.Explore(mc.Options{DevBound: 0, PreemptBound: -1, Prune: true, Deadline: r.TimeUp}, func(c *mc.Ctx) bool {
					var got []fasta.Fasta
					out := sched.Run(c, sched.Options{Horizon: 5000}, func() {
						ch := make(chan fasta.Fasta, capa)
						sched.Go(func() { fasta.ParseConcurrent(bytes.NewReader(text), ch) })
						for {
							f, ok := sched.Recv2(ch)
							if !ok {
								break
							}
							got = append(got, f)
						}
					})
					if out.Cut {
						return true
					}
					if out.String() != "ok" || !c13equal(got, list) {
						r.Fail(mc.Failure{Clause: "stream-records", Case: fmt.Sprintf("big records first, cap=%d layout %s schedule=%v", capa, l, c.Choices()), Choices: c.Choices(), Expected: c13show(list), Got: out.String() + " " + c13show(got)})
						return false
					}
					return true
				})
				r.AddExplore(st, "big-record-first")
			}
		}
		r.Bound("big-record", "records of 144 000 and 138 000 letters among short ones: Parse, and every interleaving of the stream for capacities 0, 1, 1000")
	}})
	// Parse itself (spawn + range over its internal channel) under the scheduler
	us = append(us, mc.Unit{Name: "schedules/parse", Serial: true, Weight: 30, Run: func(r *mc.Recorder) {
		for n := 1; n <= 3; n++ {
			list := small[:n]
			text := c13write(list, c13layout{useBuild: true})
			st := mc.Explore(mc.Options{DevBound: 0, PreemptBound: -1, Prune: true, Deadline: r.TimeUp}, func(c *mc.Ctx) bool {
				var got []fasta.Fasta
				out := sched.Run(c, sched.Options{Horizon: 5000}, func() { got = fasta.Parse(bytes.NewReader(text)) })
				if out.Cut {
					return true
				}
				cas := fmt.Sprintf("Parse n=%d schedule=%v", n, c.Choices())
				if out.String() != "ok" {
					r.Fail(mc.Failure{Clause: "stream-terminates", Case: cas, Choices: c.Choices(), Expected: "ok", Got: out.String()})
					return false
				}
				if !c13equal(got, list) {
					r.Fail(mc.Failure{Clause: "write-read", Case: cas, Choices: c.Choices(), Expected: c13show(list), Got: c13show(got)})
					return false
				}
				return true
			})
			r.AddExplore(st, "parse")
			r.AddNontrivial(int64(st.Execs))
		}
	}})
	return us
}

func c13units(tier string) []mc.Unit {
	return append(c13inputUnits(tier), c13schedUnits(tier)...)
}

func init() {
	mc.Register(&mc.Harness{ID: "C13", Units: c13units,
		Rule:   "inputs: distinct (record list, layout, chunking) files, layouts enumerated with a deviation bound from the default (Build text, single read, uncompressed); schedules: every interleaving of the streaming producer with a consumer task for each channel capacity; non-trivial = a layout that differs from plain Build output, or any schedule execution",
		Assume: []string{"compress/gzip and bufio are trusted", "interleavings at channel-operation granularity"}})
}
