package props

import (
	"fmt"
	"strings"

	"verif/mc"
)

// Generator of abstract GenBank records from explorer choices (shared by C01,
// C03 and C15). The feature list is a free choice over 13 feature shapes; every
// other dimension has a default and costs one deviation to change.

const gbNumShapes = 13

// span inside a sequence of length L, varied by k
func gbSpan(L, k int) string {
	a := 1 + (k*7)%L
	b := a + (k*13)%L
	if b > L {
		b = L
	}
	return fmt.Sprintf("%d..%d", a, b)
}

func gbLongJoin(L, operands int) string {
	var p []string
	for k := 0; k < operands; k++ {
		p = append(p, gbSpan(L, k+1))
	}
	return "join(" + strings.Join(p, ",") + ")"
}

const gbWords = "putative  membrane transport protein involved in the uptake of branched chain amino acids under nitrogen limiting conditions as shown by genetic complementation"

// gbShape builds feature number idx of the given shape for a sequence of length L.
func gbShape(shape, idx, L int) gbFeat {
	// INSDC feature keys are not all plain words: 5'UTR, 3'UTR, -10_signal, -35_signal, D-loop
	key := []string{"gene", "5'UTR", "misc_feature", "-10_signal", "rep_origin", "CDS", "3'UTR", "D-loop"}[(idx+shape)%8]
	loc := gbSpan(L, idx+2)
	gene := gbQual{key: "gene", val: fmt.Sprintf("abc%d", idx)}
	switch shape {
	case 0: // plain span, one qualifier
		return gbFeat{key, loc, []gbQual{gene}}
	case 1: // no qualifiers
		return gbFeat{key, loc, nil}
	case 2: // two qualifiers
		return gbFeat{key, loc, []gbQual{gene, {key: "note", val: "second qualifier"}}}
	case 3: // value containing '/'
		return gbFeat{key, loc, []gbQual{{key: "note", val: "ratio a/b and path /usr/x"}}}
	case 4: // value containing '='
		return gbFeat{key, loc, []gbQual{{key: "note", val: "x=1, y=2 and z=3"}}}
	case 5: // value wrapping onto one continuation line
		return gbFeat{key, loc, []gbQual{{key: "product", val: gbWords[:90]}}}
	case 6: // value wrapping onto two continuation lines
		return gbFeat{key, loc, []gbQual{gene, {key: "note", val: gbWords}}}
	case 7: // two-line location
		return gbFeat{key, gbLongJoin(L, 9), []gbQual{gene}}
	case 8: // three-line location
		return gbFeat{key, gbLongJoin(L, 17), []gbQual{gene}}
	case 9: // complement
		return gbFeat{key, "complement(" + loc + ")", []gbQual{gene}}
	case 10: // value-less qualifier
		return gbFeat{key, loc, []gbQual{{key: "pseudo", bare: true}, gene}}
	case 11: // unquoted numeric value
		return gbFeat{"CDS", loc, []gbQual{{key: "codon_start", val: "1", unquoted: true}, gene}}
	default: // long translation wrapped mid-word
		return gbFeat{"CDS", loc, []gbQual{gene, {key: "translation", val: strings.Repeat("MKVLAAGIVGLCSRTPEDQW", 7)}}}
	}
}

var gbShapeNames = []string{"plain", "no-qualifiers", "two-qualifiers", "slash-in-value", "equals-in-value", "value-wraps-1", "value-wraps-2", "location-2-lines", "location-3-lines", "complement", "valueless-qualifier", "unquoted-value", "translation"}

type gbGenOpts struct {
	maxFeatures int
	lengths     []int
}

// gbGenRecord draws one abstract record. salt makes records of one file differ.
func gbGenRecord(c *mc.Ctx, o gbGenOpts, salt int, tags *[]string) gbRec {
	tag := func(t string) { *tags = append(*tags, t) }
	// the feature list: a free choice over shapes (list length first), drawn before everything else so
	// that an exploration can be split into subtrees by list length and first shape
	nf := c.Any("features", o.maxFeatures+1)
	shapes := make([]int, nf)
	for i := range shapes {
		shapes[i] = c.Any(fmt.Sprintf("feature%d", i), gbNumShapes)
	}
	L := o.lengths[c.Dev("seq-length", len(o.lengths))]
	r := gbRec{
		locusName: "seq1", molType: "DNA", division: "SYN", date: "01-JAN-2000",
		definition: "Synthetic construct number one.", accession: "AB000001", version: "AB000001.1", keywords: ".",
		source: "synthetic DNA construct", organism: "synthetic DNA construct",
		seq: gbSeq(L, salt),
	}
	if salt > 0 {
		r.locusName = fmt.Sprintf("seq%d", salt+1)
		r.accession = fmt.Sprintf("AB00000%d", salt+1)
		r.version = r.accession + ".1"
		r.definition = fmt.Sprintf("Synthetic construct number %d.", salt+1)
	}
	if L < 100 {
		tag(fmt.Sprintf("length-digits=%d", len(fmt.Sprint(L))))
	}
	switch c.Dev("locus-name", 6) {
	case 1:
		r.locusName = "ab"
		tag("locus-name-2-letters")
	case 2:
		r.locusName = "my_locus_name_x2"
	case 3:
		r.locusName = "cdna_lib7" // lower-case names may spell other LOCUS fields
	case 4:
		r.locusName = "pre_mrna_3"
	case 5:
		r.locusName = "linear_syn_bp"
	}
	r.molType = []string{"DNA", "mRNA", "tRNA", "rRNA"}[c.Dev("molecule", 4)]
	r.circular = c.Dev("topology", 2) == 1
	switch c.Dev("division-date", 4) {
	case 1:
		r.division, r.date = "BCT", "15-MAR-1999"
	case 2:
		r.division, r.date = "PLN", "31-DEC-2020"
	case 3:
		r.division, r.date = "PHG", "09-OCT-2011"
	}
	switch c.Dev("definition", 3) {
	case 1:
		r.definition = "Cloning vector pVERIF1 carrying " + gbWords[:60] + "."
	case 2:
		r.definition = "Cloning vector pVERIF1, " + gbWords + ", complete sequence."
	}
	if c.Dev("keywords", 2) == 1 {
		r.keywords = "cloning vector; synthetic biology; test record."
	}
	if c.Dev("organism", 2) == 1 {
		r.organism = "Escherichia coli str. K-12 substr. MG1655"
		r.source = "Escherichia coli str. K-12 substr. MG1655"
		r.lineage = []string{"Bacteria; Proteobacteria; Gammaproteobacteria; Enterobacterales;", "Enterobacteriaceae; Escherichia."}
	}
	nrefs := []int{1, 0, 2, 5}[c.Dev("references", 4)]
	style := c.Dev("reference-style", 4)
	for i := 0; i < nrefs; i++ {
		ref := gbRef{index: i + 1, rng: fmt.Sprintf("(bases 1 to %d)", L), authors: "Smith,J. and Jones,K.", title: "Direct Submission",
			journal: "Submitted (01-JAN-2000) Department of Testing, University of Verification"}
		switch style {
		case 1:
			ref.pubmed = fmt.Sprint(1234567 + i)
		case 2:
			ref.remark = "Publication Status: Online-Only"
			tag("reference-remark")
		case 3:
			ref.authors = "Blattner,F.R., Plunkett,G. III, Bloch,C.A., Perna,N.T., Burland,V., Riley,M., Collado-Vides,J., Glasner,J.D., Rode,C.K., Mayhew,G.F., Gregor,J., Davis,N.W. and Shao,Y."
			ref.title = "The complete genome sequence of Escherichia coli K-12"
			ref.journal = "Science 277 (5331), 1453-1462 (1997)"
		}
		r.refs = append(r.refs, ref)
	}
	switch c.Dev("extra-keywords", 5) {
	case 1:
		r.extra = []gbExtra{{"COMMENT", "Annotation was added by the verification harness."}}
	case 2:
		r.extra = []gbExtra{{"COMMENT", "Annotation was added by the verification harness. " + gbWords + ". " + gbWords[:70] + "."}}
	case 3:
		r.extra = []gbExtra{{"DBLINK", "BioProject: PRJNA12345"}}
	case 4:
		r.extra = []gbExtra{{"DBLINK", "BioProject: PRJNA12345"}, {"COMMENT", "Two extra keyword blocks."}}
	}
	for i, sh := range shapes {
		r.feats = append(r.feats, gbShape(sh, i, L))
		tag("feature:" + gbShapeNames[sh])
	}
	return r
}
