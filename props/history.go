package props

import (
	"fmt"
	"strings"

	"verif/mc"
)

// History independence, checked exhaustively over call sequences: for a menu
// of calls on the real API, every sequence of up to `depth` calls is executed in
// one process and
//   - each call must give the same observation wherever it stands in a
//     sequence as it gave when it was the only call (differential oracle: no
//     hand-written expected value; the per-call value is judged by the other
//     units of the property), and
//   - every value a call returned must still read the same after the later
//     calls of the sequence (results that alias library-owned memory).
// This is the sequential-library form of "all operation sequences up to a
// depth against a reference": caches, memos, pooled buffers and registries
// that survive from one call to the next show up at the shortest sequence.

type hcall struct {
	name string
	run  func() any         // performs the call, returns what the caller would keep
	show func(v any) string // renders a kept value (reads through slices / pointers)
}

func showSprint(v any) string { return fmt.Sprint(v) }
func showBytes(v any) string  { return string(v.([]byte)) }

func historyUnit(name string, menu []hcall, depth int) mc.Unit {
	n := 0
	for d, t := 1, len(menu); d <= depth; d, t = d+1, t*len(menu) {
		n += t
	}
	return mc.Unit{Name: name, Serial: true, Weight: n/20 + 5, Run: func(r *mc.Recorder) {
		ref := map[string]string{}
		safe := func(f func() string) (s string) {
			defer func() {
				if e := recover(); e != nil {
					s = fmt.Sprint("panic: ", e)
				}
			}()
			return f()
		}
		// reference observations: each call alone, in menu order
		for _, c := range menu {
			c := c
			ref[c.name] = safe(func() string { return c.show(c.run()) })
		}
		var seqs, calls int64
		idx := make([]int, 0, depth)
		var rec func()
		rec = func() {
			if len(idx) > 0 {
				seqs++
				kept := make([]any, len(idx))
				first := make([]string, len(idx))
				var names []string
				for i, k := range idx {
					c := menu[k]
					names = append(names, c.name)
					i := i
					first[i] = safe(func() string {
						kept[i] = c.run()
						return c.show(kept[i])
					})
					calls++
					if first[i] != ref[c.name] {
						r.Failf("history-independent", strings.Join(names, "; "), []string{"history"}, fmt.Sprintf("%s gives %s (as when called alone)", c.name, q(ref[c.name])), q(first[i]))
					}
				}
				for i, k := range idx {
					if strings.HasPrefix(first[i], "panic: ") {
						continue
					}
					c := menu[k]
					i := i
					if again := safe(func() string { return c.show(kept[i]) }); again != first[i] {
						r.Failf("result-stable", strings.Join(names, "; "), []string{"history"}, fmt.Sprintf("the value returned by call %d (%s) still reads %s", i+1, c.name, q(first[i])), q(again))
					}
				}
			}
			if len(idx) == depth {
				return
			}
			for k := range menu {
				idx = append(idx, k)
				rec()
				idx = idx[:len(idx)-1]
			}
		}
		rec()
		r.Eval(calls)
		r.AddStates(seqs)
		r.AddTransitions(calls)
		r.AddNontrivial(seqs)
		var names []string
		for _, c := range menu {
			names = append(names, c.name)
		}
		r.Bound(name, fmt.Sprintf("every sequence of 1..%d calls over a menu of %d calls (%s): %d sequences", depth, len(menu), strings.Join(names, " | "), seqs))
		r.Sample(fmt.Sprintf("call sequences over {%s}: each call must observe what it observes alone, and every returned value must still read the same after the later calls", strings.Join(names, ", ")))
	}}
}
