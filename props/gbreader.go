package props

import (
	"fmt"
	"sort"
	"strings"
)

// Independent column-based GenBank reader (oracle), written from the flat-file
// description: keyword in columns 1-12 with its text from column 13,
// continuation lines begin with 12 blanks, sub-keywords are indented inside the
// keyword field, the feature table has the key in columns 6-20 and location /
// qualifiers from column 22, ORIGIN lines are numbered blocks, '//' ends the
// record. The LOCUS line is read token-wise (poly does not claim NCBI's exact
// LOCUS columns).

type gbEnt struct{ key, text string }

type gbReadFeat struct {
	key, loc string
	quals    map[string]string
}

type gbRead struct {
	locusName, length, unit, molType, topology, division, date string
	blocks                                                     []gbEnt   // top-level and sub-keyword blocks outside references
	refs                                                       [][]gbEnt // each reference: REFERENCE, AUTHORS, ...
	feats                                                      []gbReadFeat
	seq                                                        string
	problems                                                   []string
}

func blank(s string) bool { return strings.TrimSpace(s) == "" }

func (r gbRead) block(key string) string {
	for _, e := range r.blocks {
		if e.key == key {
			return e.text
		}
	}
	return ""
}

func refField(ref []gbEnt, key string) string {
	for _, e := range ref {
		if e.key == key {
			return e.text
		}
	}
	return ""
}

func gbReadRecord(text string) gbRead {
	var r gbRead
	section := ""
	var appendText func(s string) // continuation target
	inRef := false
	curQual := ""
	inLoc := false
	for _, raw := range strings.Split(text, "\n") {
		line := strings.TrimRight(raw, "\r")
		if line == "//" {
			break
		}
		if section == "ORIGIN" {
			for _, ch := range line {
				if (ch >= 'a' && ch <= 'z') || (ch >= 'A' && ch <= 'Z') {
					r.seq += string(ch)
				}
			}
			continue
		}
		if blank(line) {
			continue
		}
		if section == "FEATURES" && len(line) > 21 && blank(line[:21]) {
			body := line[21:]
			if len(r.feats) == 0 {
				r.problems = append(r.problems, "qualifier line before any feature: "+line)
				continue
			}
			f := &r.feats[len(r.feats)-1]
			switch {
			case strings.HasPrefix(body, "/"):
				inLoc = false
				kv := strings.SplitN(body[1:], "=", 2)
				curQual = kv[0]
				f.quals[curQual] = ""
				if len(kv) == 2 {
					f.quals[curQual] = kv[1]
				}
			case inLoc:
				f.loc += strings.TrimSpace(body)
			default:
				sep := " "
				if curQual == "translation" {
					sep = ""
				}
				f.quals[curQual] += sep + strings.TrimSpace(body)
			}
			continue
		}
		if section == "FEATURES" && len(line) > 5 && blank(line[:5]) && line[5] != ' ' {
			if len(line) < 22 || !blank(line[20:21]) {
				r.problems = append(r.problems, "feature line without a location in column 22: "+line)
				continue
			}
			r.feats = append(r.feats, gbReadFeat{key: strings.TrimSpace(line[5:21]), loc: strings.TrimSpace(line[21:]), quals: map[string]string{}})
			inLoc, curQual = true, ""
			continue
		}
		if len(line) < 12 {
			line += strings.Repeat(" ", 12-len(line))
		}
		kw, rest := line[:12], strings.TrimSpace(line[12:])
		switch {
		case blank(kw):
			if appendText == nil {
				r.problems = append(r.problems, "continuation line without a block: "+line)
				continue
			}
			appendText(rest)
		case kw[0] != ' ':
			key := strings.TrimSpace(kw)
			section = key
			inRef = false
			appendText = nil
			switch key {
			case "LOCUS":
				r.parseLocus(strings.Fields(rest))
			case "REFERENCE":
				inRef = true
				r.refs = append(r.refs, []gbEnt{{"REFERENCE", rest}})
				ri := len(r.refs) - 1
				appendText = func(s string) { r.refs[ri][0].text += " " + s }
			case "FEATURES", "ORIGIN":
			default:
				r.blocks = append(r.blocks, gbEnt{key, rest})
				bi := len(r.blocks) - 1
				appendText = func(s string) { r.blocks[bi].text += " " + s }
			}
		default:
			key := strings.TrimSpace(kw)
			if inRef {
				ri := len(r.refs) - 1
				r.refs[ri] = append(r.refs[ri], gbEnt{key, rest})
				ei := len(r.refs[ri]) - 1
				appendText = func(s string) { r.refs[ri][ei].text += " " + s }
			} else {
				r.blocks = append(r.blocks, gbEnt{key, rest})
				bi := len(r.blocks) - 1
				appendText = func(s string) { r.blocks[bi].text += " " + s }
			}
		}
	}
	for fi := range r.feats {
		for k, v := range r.feats[fi].quals {
			v = strings.TrimSpace(v)
			if strings.HasPrefix(v, "\"") && strings.HasSuffix(v, "\"") && len(v) >= 2 {
				v = v[1 : len(v)-1]
			}
			r.feats[fi].quals[k] = v
		}
	}
	return r
}

func (r *gbRead) parseLocus(tok []string) {
	// name length unit type [topology] division date
	if len(tok) < 4 {
		r.problems = append(r.problems, "short LOCUS line")
		return
	}
	r.locusName, r.length, r.unit = tok[0], tok[1], tok[2]
	rest := tok[3:]
	r.molType = rest[0]
	rest = rest[1:]
	if len(rest) > 0 && (rest[0] == "linear" || rest[0] == "circular") {
		r.topology = rest[0]
		rest = rest[1:]
	}
	if len(rest) > 0 {
		r.division = rest[0]
		rest = rest[1:]
	}
	if len(rest) > 0 {
		r.date = rest[0]
	}
}

func qualMapString(m map[string]string) string {
	var k []string
	for x := range m {
		k = append(k, x)
	}
	sort.Strings(k)
	var p []string
	for _, x := range k {
		p = append(p, fmt.Sprintf("%s=%q", x, m[x]))
	}
	return strings.Join(p, ";")
}
