// Package props holds one harness per property. Each file cNN.go is guarded by
// the build tag cNN so that a check builds only the harness (and the
// instrumentation) it needs.
package props
