package props

import (
	"fmt"
	"strings"
)

// Independent GenBank flat-file writer (oracle): lays out an abstract record in
// the flat-file columns — keyword in columns 1-12, continuation lines from
// column 13, feature key in columns 6-20, location / qualifiers from column 22,
// text wrapped at blanks to 80 columns, locations wrapped after commas,
// /translation wrapped mid-word, ORIGIN in 6 blocks of 10 — and is used to
// produce the files the parser properties are judged on.

type gbRef struct {
	index                                        int
	rng, authors, title, journal, pubmed, remark string
}

type gbQual struct {
	key, val string
	bare     bool // no value: /pseudo
	unquoted bool // /codon_start=1
}

type gbFeat struct {
	key   string
	loc   string
	quals []gbQual
}

type gbExtra struct{ key, text string }

type gbRec struct {
	locusName  string
	molType    string
	circular   bool
	division   string
	date       string
	definition string
	accession  string
	version    string
	keywords   string
	source     string
	organism   string   // first ORGANISM line
	lineage    []string // further lines of the ORGANISM block
	refs       []gbRef
	extra      []gbExtra
	feats      []gbFeat
	seq        string
}

// wrapWords breaks text at blanks into lines of at most width characters (the
// first line may be shorter by `first`); a word longer than a line stays whole.
func wrapWords(text string, width, firstUsed int) []string {
	words := strings.Split(text, " ")
	var lines []string
	cur := ""
	room := width - firstUsed
	for i, w := range words {
		if i == 0 {
			cur = w
			continue
		}
		if len(cur)+1+len(w) <= room {
			cur += " " + w
		} else {
			lines = append(lines, cur)
			cur = w
			room = width
		}
	}
	return append(lines, cur)
}

func gbKeywordBlock(b *strings.Builder, keyword, text string) {
	lines := wrapWords(text, 68, 0)
	for i, l := range lines {
		if i == 0 {
			fmt.Fprintf(b, "%-12s%s\n", keyword, l)
		} else {
			b.WriteString(strings.Repeat(" ", 12) + l + "\n")
		}
	}
}

// expected value of a keyword block after wrapped lines are re-joined
func gbJoined(text string) string { return strings.Join(wrapWords(text, 68, 0), " ") }

func gbLocusLine(r gbRec) string {
	topo := "linear"
	if r.circular {
		topo = "circular"
	}
	// NCBI layout: name from column 13, length right-justified before " bp"
	return fmt.Sprintf("LOCUS       %-16s %11d bp    %-6s  %-8s %s %s", r.locusName, len(r.seq), r.molType, topo, r.division, r.date)
}

// the qualifier / location field spans columns 22-80
const gbFieldWidth = 59

// location text wrapped after commas to the field width
func gbWrapLocation(loc string) []string {
	if len(loc) <= gbFieldWidth {
		return []string{loc}
	}
	var lines []string
	cur := ""
	parts := strings.SplitAfter(loc, ",")
	for _, p := range parts {
		if len(cur)+len(p) > gbFieldWidth && cur != "" {
			lines = append(lines, cur)
			cur = ""
		}
		cur += p
	}
	return append(lines, cur)
}

func gbQualLines(q gbQual) []string {
	if q.bare {
		return []string{"/" + q.key}
	}
	if q.unquoted {
		return []string{"/" + q.key + "=" + q.val}
	}
	if q.key == "translation" {
		full := "/translation=\"" + q.val + "\""
		var lines []string
		for len(full) > gbFieldWidth {
			lines = append(lines, full[:gbFieldWidth])
			full = full[gbFieldWidth:]
		}
		return append(lines, full)
	}
	head := "/" + q.key + "=\""
	lines := wrapWords(q.val, gbFieldWidth, len(head))
	lines[0] = head + lines[0]
	lines[len(lines)-1] += "\""
	return lines
}

func gbWrite(r gbRec) string {
	var b strings.Builder
	b.WriteString(gbLocusLine(r) + "\n")
	gbKeywordBlock(&b, "DEFINITION", r.definition)
	gbKeywordBlock(&b, "ACCESSION", r.accession)
	gbKeywordBlock(&b, "VERSION", r.version)
	for _, e := range r.extra {
		if e.key == "DBLINK" {
			gbKeywordBlock(&b, e.key, e.text)
		}
	}
	gbKeywordBlock(&b, "KEYWORDS", r.keywords)
	gbKeywordBlock(&b, "SOURCE", r.source)
	gbKeywordBlock(&b, "  ORGANISM", r.organism)
	for _, l := range r.lineage {
		b.WriteString(strings.Repeat(" ", 12) + l + "\n")
	}
	for _, ref := range r.refs {
		gbKeywordBlock(&b, "REFERENCE", fmt.Sprintf("%d  %s", ref.index, ref.rng))
		if ref.authors != "" {
			gbKeywordBlock(&b, "  AUTHORS", ref.authors)
		}
		if ref.title != "" {
			gbKeywordBlock(&b, "  TITLE", ref.title)
		}
		if ref.journal != "" {
			gbKeywordBlock(&b, "  JOURNAL", ref.journal)
		}
		if ref.pubmed != "" {
			gbKeywordBlock(&b, "   PUBMED", ref.pubmed)
		}
		if ref.remark != "" {
			gbKeywordBlock(&b, "  REMARK", ref.remark)
		}
	}
	for _, e := range r.extra {
		if e.key != "DBLINK" {
			gbKeywordBlock(&b, e.key, e.text)
		}
	}
	b.WriteString("FEATURES             Location/Qualifiers\n")
	for _, f := range r.feats {
		for i, l := range gbWrapLocation(f.loc) {
			if i == 0 {
				fmt.Fprintf(&b, "     %-16s%s\n", f.key, l)
			} else {
				b.WriteString(strings.Repeat(" ", 21) + l + "\n")
			}
		}
		for _, q := range f.quals {
			for _, l := range gbQualLines(q) {
				b.WriteString(strings.Repeat(" ", 21) + l + "\n")
			}
		}
	}
	b.WriteString("ORIGIN\n")
	for i := 0; i < len(r.seq); i += 60 {
		fmt.Fprintf(&b, "%9d", i+1)
		for j := i; j < i+60 && j < len(r.seq); j += 10 {
			e := j + 10
			if e > len(r.seq) {
				e = len(r.seq)
			}
			b.WriteString(" " + r.seq[j:e])
		}
		b.WriteString("\n")
	}
	b.WriteString("//\n")
	return b.String()
}

const gbFlatHeader = `GBBCT1.SEQ          Genetic Sequence Data Bank
                          October 15 2020

                NCBI-GenBank Flat File Release 240.0

                     Bacterial Sequences (Part 1)

   51396 loci,    92682287 bases, from    51396 reported sequences


`

// gbCheckText asserts the generator's side conditions on a laid-out file.
func gbCheckText(text string) string {
	for _, l := range strings.Split(text, "\n") {
		if strings.HasSuffix(l, "//") && l != "//" {
			return "a line other than a terminator ends in //: " + l
		}
		if len(l) > 22 && strings.HasPrefix(l, strings.Repeat(" ", 21)) && l[21] == '/' {
			// qualifier start lines are fine; continuation lines must not start with '/'
			continue
		}
		if strings.HasSuffix(l, " ") {
			return "a line ends in a blank: " + l
		}
		if strings.Contains(l, "\"\"") {
			return "doubled quote"
		}
	}
	return ""
}

func gbSeq(n, salt int) string {
	x := uint32(salt*7919 + 17)
	b := make([]byte, n)
	for i := range b {
		x = x*1664525 + 1013904223
		b[i] = "acgt"[(x>>26)%4]
	}
	return string(b)
}
