//go:build c11

package props

import (
	"fmt"
	"sort"
	"strings"

	"github.com/TimothyStiles/poly/checks"
	"github.com/TimothyStiles/poly/transform"
	"github.com/TimothyStiles/poly/transform/variants"

	"verif/mc"
)

// Oracle: every IUPAC code is a set of bases (bit mask A=1 C=2 G=4 T=8). The
// complement of a code is the code of the complemented set — derived, not
// tabulated.
var c11sets = map[byte]int{'A': 1, 'C': 2, 'G': 4, 'T': 8, 'R': 1 | 4, 'Y': 2 | 8, 'S': 2 | 4, 'W': 1 | 8, 'K': 4 | 8, 'M': 1 | 2,
	'B': 2 | 4 | 8, 'D': 1 | 4 | 8, 'H': 1 | 2 | 8, 'V': 1 | 2 | 4, 'N': 15}

const c11codes = "ACGTRYSWKMBDHVN"

func c11compSet(m int) int {
	o := 0
	if m&1 != 0 {
		o |= 8
	}
	if m&8 != 0 {
		o |= 1
	}
	if m&2 != 0 {
		o |= 4
	}
	if m&4 != 0 {
		o |= 2
	}
	return o
}

func c11codeOf(m int) byte {
	for c, s := range c11sets {
		if s == m {
			return c
		}
	}
	panic("no code")
}

func c11comp(b byte) byte {
	lower := b >= 'a' && b <= 'z'
	u := b
	if lower {
		u = b - 32
	}
	c := c11codeOf(c11compSet(c11sets[u]))
	if lower {
		c += 32
	}
	return c
}

func c11rc(s string) string {
	out := make([]byte, len(s))
	for i := 0; i < len(s); i++ {
		out[len(s)-1-i] = c11comp(s[i])
	}
	return string(out)
}

func c11expand(s string) []string {
	res := []string{""}
	for i := 0; i < len(s); i++ {
		u := s[i]
		if u >= 'a' {
			u -= 32
		}
		m := c11sets[u]
		var nx []string
		for _, p := range res {
			for bi, b := range []byte("ACGT") {
				if m&(1<<bi) != 0 {
					nx = append(nx, p+string(b))
				}
			}
		}
		res = nx
	}
	sort.Strings(res)
	return res
}

func c11one(r *mc.Recorder, s string, doVariants bool) {
	fail := func(clause, exp, got string) { r.Failf(clause, q(s), nil, exp, got) }
	want := c11rc(s)
	var rc, comp, rev, rcrc string
	if p := catch(func() {
		rc = transform.ReverseComplement(s)
		comp = transform.Complement(s)
		rev = transform.Reverse(comp)
		rcrc = transform.ReverseComplement(rc)
	}); p != "" {
		fail("no-panic", "no panic", p)
		return
	}
	if len(rc) != len(s) {
		fail("rc-length", fmt.Sprint(len(s)), fmt.Sprint(len(rc)))
	}
	if rc != want {
		fail("rc-code-semantics", q(want), q(rc))
	}
	if rc != rev {
		fail("rc-is-reverse-of-complement", q(rev), q(rc))
	}
	if rcrc != s {
		fail("rc-involution", q(s), q(rcrc))
	}
	for i := 1; i < len(s); i++ {
		if x := transform.ReverseComplement(s[i:]) + transform.ReverseComplement(s[:i]); x != rc {
			fail("rc-anti-homomorphism", q(rc), q(x)+" at split "+fmt.Sprint(i))
		}
	}
	if got, w := checks.IsPalindromic(s), s == want; got != w {
		fail("palindromic", fmt.Sprint(w), fmt.Sprint(got))
	}
	if doVariants {
		wantV := c11expand(s)
		gotV, err := variants.AllVariantsIUPAC(s)
		if err != nil {
			fail("variants", "no error", err.Error())
			return
		}
		g := append([]string(nil), gotV...)
		sort.Strings(g)
		if strings.Join(g, ",") != strings.Join(wantV, ",") {
			fail("variants-exact", strings.Join(wantV, ","), strings.Join(g, ","))
		}
		// expansion commutes with reverse complement
		gotRC, err := variants.AllVariantsIUPAC(rc)
		if err != nil {
			fail("variants-commute", "no error", err.Error())
			return
		}
		a := append([]string(nil), gotRC...)
		sort.Strings(a)
		b := make([]string, len(gotV))
		for i, v := range gotV {
			b[i] = transform.ReverseComplement(v)
		}
		sort.Strings(b)
		if strings.Join(a, ",") != strings.Join(b, ",") {
			fail("variants-commute", strings.Join(b, ","), strings.Join(a, ","))
		}
	}
}

func c11units(tier string) []mc.Unit {
	var us []mc.Unit
	upperMax := tier2(tier, 4, 5)
	mixedMax := tier2(tier, 2, 3)
	mixed := c11codes + strings.ToLower(c11codes)
	add := func(name, alpha string, n int, pre string) {
		m := n - len(pre)
		us = append(us, mc.Unit{Name: fmt.Sprintf("%s/n=%d/pre=%s", name, n, pre), Weight: int(pow(len(alpha), m)/500) + 1, Run: func(r *mc.Recorder) {
			cnt, nt := int64(0), int64(0)
			f := func(b []byte) {
				s := pre + string(b)
				c11one(r, s, true)
				cnt++
				if strings.ContainsAny(strings.ToUpper(s), "RYSWKMBDHVN") {
					nt++
				}
				if cnt == 7 {
					r.Sample(fmt.Sprintf("%q: rc=%q variants=%v", s, c11rc(s), c11expand(s)))
				}
			}
			if m == 0 {
				f(nil)
			} else {
				enumStrings(alpha, m, f)
			}
			r.Eval(cnt)
			r.AddStates(cnt)
			r.AddTransitions(cnt * 6)
			r.AddNontrivial(nt)
			r.Bound(name, fmt.Sprintf("all strings over %d codes", len(alpha)))
		}})
	}
	for n := 0; n <= upperMax; n++ {
		if n >= 4 {
			for _, c := range c11codes {
				add("upper", c11codes, n, string(c))
			}
		} else {
			add("upper", c11codes, n, "")
		}
	}
	for n := 1; n <= mixedMax; n++ {
		if n >= 3 {
			for _, c := range mixed {
				add("mixed", mixed, n, string(c))
			}
		} else {
			add("mixed", mixed, n, "")
		}
	}
	us = append(us, historyUnit("api-histories", []hcall{
		{"ReverseComplement(ACGTNRYKMbdhv)", func() any { return transform.ReverseComplement("ACGTNRYKMbdhv") }, showSprint},
		{"Complement(acgtnSW)", func() any { return transform.Complement("acgtnSW") }, showSprint},
		{"Reverse(ACGTN)", func() any { return transform.Reverse("ACGTN") }, showSprint},
		{"AllVariantsIUPAC(ANT)", func() any { v, _ := variants.AllVariantsIUPAC("ANT"); return v }, showSprint},
		{"AllVariantsIUPAC(RYK)", func() any { v, _ := variants.AllVariantsIUPAC("RYK"); return v }, showSprint},
		{"AllVariantsIUPAC(ACU) (rejected)", func() any { v, err := variants.AllVariantsIUPAC("ACU"); return fmt.Sprint(len(v), err != nil) }, showSprint},
		{"AllVariantsIUPAC(NNXA) (rejected)", func() any { v, err := variants.AllVariantsIUPAC("NNXA"); return fmt.Sprint(len(v), err != nil) }, showSprint},
		{"AllVariantsIUPAC(GN)", func() any { v, _ := variants.AllVariantsIUPAC("GN"); return v }, showSprint},
		{"ReverseComplement(A-C) (outside the alphabet)", func() any { return len(transform.ReverseComplement("A-C")) }, showSprint},
		{"IsPalindromic(GAATTC)", func() any { return checks.IsPalindromic("GAATTC") }, showSprint},
		{"IsPalindromic(GCWGC)", func() any { return checks.IsPalindromic("GCWGC") }, showSprint},
	}, 3))
	// long inputs at lengths around powers of two (an enumerated family): reverse complement against the oracle,
	// involution, and the anti-homomorphism at a few split points
	for _, n := range []int{255, 256, 257, 4095, 4097, 9999, 65535, 65537, 70001, tier2(tier, 70003, 100000)} {
		n := n
		us = append(us, mc.Unit{Name: fmt.Sprintf("long/n=%d", n), Weight: n/2000 + 1, Run: func(r *mc.Recorder) {
			x := uint32(77)
			b := make([]byte, n)
			for i := range b {
				x = x*1664525 + 1013904223
				b[i] = (c11codes + "acgtn")[(x>>24)%20]
			}
			s := string(b)
			want := c11rc(s)
			var rc string
			if p := catch(func() { rc = transform.ReverseComplement(s) }); p != "" || rc != want {
				i := 0
				for i < len(rc) && i < len(want) && rc[i] == want[i] {
					i++
				}
				r.Failf("rc-code-semantics", fmt.Sprintf("pseudo-random IUPAC string of %d letters", n), nil, "oracle reverse complement", fmt.Sprintf("first difference at %d of %d %s", i, len(rc), p))
			}
			if rr := transform.ReverseComplement(rc); rr != s {
				r.Failf("rc-involution", fmt.Sprintf("pseudo-random IUPAC string of %d letters", n), nil, "the input", "differs")
			}
			for _, k := range []int{1, n / 3, n - 1} {
				if transform.ReverseComplement(s[k:])+transform.ReverseComplement(s[:k]) != rc {
					r.Failf("rc-anti-homomorphism", fmt.Sprintf("pseudo-random IUPAC string of %d letters split at %d", n, k), nil, "rc(b)+rc(a)", "differs")
				}
			}
			if transform.Reverse(transform.Complement(s)) != rc {
				r.Failf("rc-is-reverse-of-complement", fmt.Sprintf("pseudo-random IUPAC string of %d letters", n), nil, "equal", "differs")
			}
			r.Eval(6)
			r.AddStates(1)
			r.AddTransitions(6)
			r.AddNontrivial(1)
		}})
	}
	// structured sweep: every length 0..300 and geometrically beyond, each with the fixed shapes of dnaShapes
	// (homopolymers, alternations, inverted repeats, pure A/C/G/T and mixed-code pseudo-random strings, mixed case)
	lens := sweepLengths(0, tier2(tier, 300, 600), tier2(tier, 70000, 200000))
	for part := 0; part < 4; part++ {
		part := part
		us = append(us, mc.Unit{Name: fmt.Sprintf("sweep/part=%d", part), Weight: 40, Run: func(r *mc.Recorder) {
			cnt := int64(0)
			for i, n := range lens {
				if i%4 != part {
					continue
				}
				shapes := dnaShapes(n)
				shapes = append(shapes, shaped{"IUPAC pseudo-random", lcgString(c11codes, n, 3)},
					shaped{"mixed case A/C/G/T", lcgString("ACGTacgt", n, 4)}, shaped{"lower case", strings.ToLower(lcgString("ACGT", n, 6))})
				for _, sh := range shapes {
					cnt++
					if n <= 300 {
						c11one(r, sh.s, false)
						continue
					}
					c11long(r, sh.s, fmt.Sprintf("%s, %d letters", sh.shape, n))
				}
			}
			r.Eval(cnt)
			r.AddStates(cnt)
			r.AddTransitions(cnt * 6)
			r.AddNontrivial(cnt)
			r.Bound("sweep", fmt.Sprintf("%d lengths (every length to %d, then +7%% steps to %d) x about 20 shapes", len(lens), tier2(tier, 300, 600), lens[len(lens)-1]))
		}})
	}
	// every length 0..L: one pseudo-random mixed-code and one pure A/C/G/T string per length
	maxLen := tier2(tier, 12300, 40000)
	for part := 0; part < 4; part++ {
		part := part
		us = append(us, mc.Unit{Name: fmt.Sprintf("every-length/part=%d", part), Weight: maxLen / 100, Run: func(r *mc.Recorder) {
			f1 := lcgString(c11codes+"acgtnry", maxLen, 21)
			f2 := lcgString("ACGT", maxLen, 22)
			cnt := int64(0)
			for n := part; n <= maxLen; n += 4 {
				for _, s := range []string{f1[maxLen-n:], f2[:n]} {
					want := c11rc(s)
					var rc string
					if p := catch(func() { rc = transform.ReverseComplement(s) }); p != "" || rc != want {
						r.Failf("rc-code-semantics", fmt.Sprintf("pseudo-random string of %d letters", n), []string{"every-length"}, "oracle reverse complement", fmt.Sprintf("differs %s", p))
					}
					if got, w := checks.IsPalindromic(s), s == want; got != w {
						r.Failf("palindromic", fmt.Sprintf("pseudo-random string of %d letters", n), []string{"every-length"}, fmt.Sprint(w), fmt.Sprint(got))
					}
					cnt++
				}
				if r.Enough() {
					break
				}
			}
			r.Eval(cnt)
			r.AddStates(cnt)
			r.AddTransitions(cnt * 2)
			r.AddNontrivial(cnt)
			r.Bound("every-length", fmt.Sprintf("every length 0..%d, two strings each", maxLen))
		}})
	}
	// large expansions (up to 4^9 variants) under several GOMAXPROCS settings
	longAmb := func(n, k int, code byte) string { // n letters, k of them the ambiguity code, spread evenly
		b := []byte(lcgString("ACGT", n, uint32(n)))
		for i := 0; i < k; i++ {
			b[i*n/k] = code
		}
		return string(b)
	}
	for _, in := range []string{"NNNNNNNN", "NNNNNNNNN", "BDHVBDHVBD", "BBBBBBBBBBB", "NRYNKMNBDN", "ANNNNCNNNNG", "VVVVVVVVVHA",
		longAmb(16, 9, 'N'), longAmb(32, 9, 'N'), longAmb(63, 9, 'N'), longAmb(64, 9, 'N'), longAmb(65, 8, 'N'), longAmb(100, 10, 'B'), longAmb(128, 9, 'N'), longAmb(256, 8, 'N'), longAmb(1000, 6, 'N'), longAmb(4096, 4, 'N')} {
		in := in
		uname := in
		if len(uname) > 16 {
			uname = fmt.Sprintf("%d-letters-%s", len(in), in[:8])
		}
		us = append(us, mc.Unit{Name: "large-expansion/" + uname, Weight: 60, Run: func(r *mc.Recorder) {
			want := c11expand(in)
			menu := procsMenu
			if len(want)*len(in) > 5000000 {
				menu = []int{1, 4} // several hundred megabytes per call: two settings only
			}
			withProcs(menu, func(p int) {
				got, err := variants.AllVariantsIUPAC(in)
				g := append([]string(nil), got...)
				sort.Strings(g)
				ok := err == nil && len(g) == len(want)
				for i := 0; ok && i < len(g); i++ {
					ok = g[i] == want[i]
				}
				if !ok {
					bad := ""
					for i := 0; i < len(g) && i < len(want); i++ {
						if g[i] != want[i] {
							bad = fmt.Sprintf("first difference at sorted index %d: %q, want %q", i, g[i], want[i])
							break
						}
					}
					r.Failf("variants-exact", fmt.Sprintf("%s with GOMAXPROCS=%d", q(in), p), []string{"large"}, fmt.Sprintf("%d variants, each once", len(want)), fmt.Sprintf("%d variants, err=%v, %s", len(g), err, bad))
				}
				r.Eval(1)
				r.AddStates(1)
				r.AddTransitions(int64(len(want)))
				r.AddNontrivial(1)
			})
			r.Bound("large-expansion", fmt.Sprintf("expansions of up to %d variants under GOMAXPROCS in %v", len(want), procsMenu))
		}})
	}
	return us
}

// c11long checks a long string against the oracle (no per-split loop).
func c11long(r *mc.Recorder, s, label string) {
	n := len(s)
	want := c11rc(s)
	var rc string
	if p := catch(func() { rc = transform.ReverseComplement(s) }); p != "" || rc != want {
		i := 0
		for i < len(rc) && i < len(want) && rc[i] == want[i] {
			i++
		}
		r.Failf("rc-code-semantics", label, nil, "oracle reverse complement", fmt.Sprintf("first difference at %d of %d %s", i, len(rc), p))
	}
	if rr := transform.ReverseComplement(rc); rr != s {
		r.Failf("rc-involution", label, nil, "the input", "differs")
	}
	for _, k := range []int{1, n / 3, n - 1} {
		if transform.ReverseComplement(s[k:])+transform.ReverseComplement(s[:k]) != rc {
			r.Failf("rc-anti-homomorphism", fmt.Sprintf("%s split at %d", label, k), nil, "rc(b)+rc(a)", "differs")
		}
	}
	if transform.Reverse(transform.Complement(s)) != rc {
		r.Failf("rc-is-reverse-of-complement", label, nil, "equal", "differs")
	}
	if got, w := checks.IsPalindromic(s), s == want; got != w {
		r.Failf("palindromic", label, nil, fmt.Sprint(w), fmt.Sprint(got))
	}
}

func init() {
	mc.Register(&mc.Harness{ID: "C11", Units: c11units,
		Rule:   "distinct IUPAC strings enumerated completely per length (upper case, and mixed case over the 30 codes); non-trivial = contains at least one ambiguity code",
		Assume: []string{"the IUPAC code-to-base-set table in the oracle (15 entries) is correct; complements are derived from it by set complementation, not tabulated"}})
}
