//go:build c01

package props

import (
	"bytes"
	"compress/gzip"
	"fmt"
	"os"
	"path/filepath"
	"strconv"
	"strings"

	"github.com/TimothyStiles/poly"
	"github.com/TimothyStiles/poly/io/genbank"

	"verif/mc"
)

// c1compare compares a parsed record with the abstract record it was laid out from.
func c1compare(rec gbRec, got poly.Sequence, fail func(clause, exp, got string)) {
	eq := func(clause, what, want, have string) {
		if want != have {
			fail(clause, what+" = "+q(want), q(have))
		}
	}
	eq("origin-letters", "sequence", rec.seq, got.Sequence)
	l := got.Meta.Locus
	eq("locus-name", "name", rec.locusName, l.Name)
	eq("locus-length", "length", strconv.Itoa(len(rec.seq)), l.SequenceLength)
	eq("locus-molecule-type", "molecule type", rec.molType, l.MoleculeType)
	if l.Circular != rec.circular || l.Linear != !rec.circular {
		fail("locus-topology", fmt.Sprintf("circular=%v linear=%v", rec.circular, !rec.circular), fmt.Sprintf("circular=%v linear=%v", l.Circular, l.Linear))
	}
	eq("locus-division", "division", rec.division, l.GenbankDivision)
	eq("locus-date", "date", rec.date, l.ModificationDate)
	eq("keyword-blocks", "DEFINITION", gbJoined(rec.definition), got.Meta.Definition)
	eq("keyword-blocks", "ACCESSION", rec.accession, got.Meta.Accession)
	eq("keyword-blocks", "VERSION", rec.version, got.Meta.Version)
	eq("keyword-blocks", "KEYWORDS", gbJoined(rec.keywords), got.Meta.Keywords)
	eq("keyword-blocks", "SOURCE", gbJoined(rec.source), got.Meta.Source)
	org := gbJoined(rec.organism)
	for _, x := range rec.lineage {
		org += " " + x
	}
	eq("keyword-blocks", "ORGANISM", org, got.Meta.Organism)
	if len(got.Meta.References) != len(rec.refs) {
		fail("references", fmt.Sprint(len(rec.refs), " references"), fmt.Sprint(len(got.Meta.References)))
	} else {
		for i, ref := range rec.refs {
			g := got.Meta.References[i]
			want := fmt.Sprintf("%d|%s|%s|%s|%s|%s|%s", ref.index, ref.rng, gbJoined(ref.authors), gbJoined(ref.title), gbJoined(ref.journal), ref.pubmed, gbJoined(ref.remark))
			have := fmt.Sprintf("%s|%s|%s|%s|%s|%s|%s", g.Index, g.Range, g.Authors, g.Title, g.Journal, g.PubMed, g.Remark)
			eq("references", fmt.Sprintf("reference %d", i+1), want, have)
		}
	}
	for _, e := range rec.extra {
		eq("other-keywords", e.key, gbJoined(e.text), got.Meta.Other[e.key])
	}
	if len(got.Features) != len(rec.feats) {
		var keys []string
		for _, f := range got.Features {
			keys = append(keys, f.Type+" "+f.GbkLocationString)
		}
		fail("features-in-order", fmt.Sprint(len(rec.feats), " features"), fmt.Sprint(len(got.Features), ": ", strings.Join(keys, "; ")))
		return
	}
	for i, f := range rec.feats {
		g := got.Features[i]
		eq("feature-key", fmt.Sprintf("feature %d key", i), f.key, g.Type)
		eq("feature-location-text", fmt.Sprintf("feature %d location", i), f.loc, g.GbkLocationString)
		if len(g.Attributes) != len(f.quals) {
			fail("qualifier-values", fmt.Sprintf("feature %d: %d qualifiers", i, len(f.quals)), fmt.Sprint(g.Attributes))
		}
		for _, qu := range f.quals {
			v, ok := g.Attributes[qu.key]
			if !ok {
				fail("qualifier-values", fmt.Sprintf("feature %d qualifier %s", i, qu.key), fmt.Sprint("missing; have ", g.Attributes))
				continue
			}
			eq("qualifier-values", fmt.Sprintf("feature %d /%s", i, qu.key), qu.val, v)
		}
	}
}

// c1dump: canonical rendering of a parsed record (for "equal to parsing that record alone").
func c1dump(s poly.Sequence) string {
	var b strings.Builder
	fmt.Fprintf(&b, "%+v|%s|", s.Meta, s.Sequence)
	for _, f := range s.Features {
		fmt.Fprintf(&b, "%s|%s|%v|%+v;", f.Type, f.GbkLocationString, f.Attributes, f.SequenceLocation)
	}
	return b.String()
}

func c01units(tier string) []mc.Unit {
	thorough := tier == "thorough"
	lengths := []int{120, 1, 9, 10, 11, 59, 60, 61, 99, 100, 1000}
	if thorough {
		lengths = append(lengths, 100000)
	}
	var us []mc.Unit
	// units: split on the first feature shape so that workers balance
	type split struct{ nf, first int }
	var splits []split
	maxF := tier2(tier, 2, 3)
	splits = append(splits, split{0, 0})
	for sh := 0; sh < gbNumShapes; sh++ {
		splits = append(splits, split{1, sh})
	}
	for _, sp := range splits {
		sp := sp
		us = append(us, mc.Unit{Name: fmt.Sprintf("files/first-shape=%d/%d", sp.nf, sp.first), Weight: 100, Run: func(r *mc.Recorder) {
			var cnt, nt, full80 int64
			root := []int{0}
			if sp.nf == 1 {
				// Any("features", n) does not record a point when n == 1; here n = maxF+1 >= 3
				root = nil // filled below per list length
			}
			var roots [][]int
			if sp.nf == 0 {
				roots = [][]int{root}
			} else {
				for n := 1; n <= maxF; n++ {
					roots = append(roots, []int{n, sp.first})
				}
			}
			var st mc.Stats
			st.Exhaustive = true
			for _, rt := range roots {
				s1 := mc.Explore(mc.Options{DevBound: 2, PreemptBound: -1, Deadline: r.TimeUp, Root: rt}, func(c *mc.Ctx) bool {
					var tags []string
					// restrict this unit to lists that start with its shape: the list length and the first
					// shape are still drawn through the explorer, other subtrees are skipped
					rec := gbGenRecord(c, gbGenOpts{maxFeatures: maxF, lengths: lengths}, 0, &tags)
					k := []int{1, 2, 3, 5}[c.Dev("records", 4)]
					recs := []gbRec{rec}
					for i := 1; i < k; i++ {
						x := rec
						x.locusName = fmt.Sprintf("%s_%d", rec.locusName, i+1)
						if rec.locusName == "ab" {
							x.locusName = "ab" // keep the two-letter shape in every record
						}
						x.accession = fmt.Sprintf("AB00000%d", i+1)
						x.version = x.accession + ".1"
						x.seq = gbSeq(len(rec.seq), i)
						recs = append(recs, x)
					}
					api := c.Dev("api", 3) // 0 Parse (ParseMulti when k>1), 1 ParseMulti, 2 ParseFlat
					finalNL := c.Dev("final-newline", 2) == 0
					var text string
					for _, x := range recs {
						text += gbWrite(x)
					}
					if msg := gbCheckText(text); msg != "" {
						panic("generator produced an inadmissible file: " + msg)
					}
					for _, ln := range strings.Split(text, "\n") {
						if len(ln) == 80 && strings.HasPrefix(ln, strings.Repeat(" ", 21)) {
							full80++
						}
					}
					if api == 2 {
						text = gbFlatHeader + text
						tags = append(tags, "api=ParseFlat")
					}
					if !finalNL {
						text = strings.TrimSuffix(text, "\n")
						tags = append(tags, "no-final-newline")
					}
					if k > 1 || api >= 1 {
						tags = append(tags, "multi-api")
					}
					cas := fmt.Sprintf("features=%v records=%d %s", gbFeatureTags(tags), k, c.Describe())
					fail := func(clause, exp, got string) { r.Failf(clause, cas, tags, exp, got) }
					var got []poly.Sequence
					cnt++
					if p := catch(func() {
						switch {
						case api == 2:
							got = genbank.ParseFlat([]byte(text))
						case api == 1 || k > 1:
							got = genbank.ParseMulti([]byte(text))
						default:
							got = []poly.Sequence{genbank.Parse([]byte(text))}
						}
					}); p != "" {
						fail("no-panic", "parsed records", "panic: "+p)
						return true
					}
					if len(c.Choices()) > 0 {
						nt++
					}
					if len(got) != k {
						fail("k-records", fmt.Sprint(k, " records"), fmt.Sprint(len(got), " records"))
						return true
					}
					for i := range recs {
						i := i
						c1compare(recs[i], got[i], func(clause, exp, g string) { fail(clause, fmt.Sprintf("record %d: %s", i+1, exp), g) })
						if k > 1 || api >= 1 {
							var alone poly.Sequence
							if p := catch(func() { alone = genbank.Parse([]byte(gbWrite(recs[i]))) }); p == "" && c1dump(alone) != c1dump(got[i]) {
								fail("equals-parsing-alone", "record "+fmt.Sprint(i+1)+" as parsed alone", "differs inside the multi-record file")
							}
						}
					}
					if cnt == 25 {
						r.Sample(cas + "\n" + text)
					}
					return true
				})
				st.Execs += s1.Execs
				st.Transitions += s1.Transitions
				st.Exhaustive = st.Exhaustive && s1.Exhaustive
			}
			r.AddExplore(st, "files")
			if full80 > 0 {
				r.Bound(fmt.Sprintf("full-width/%d/%d", sp.nf, sp.first), fmt.Sprintf("%d qualifier/location lines filling the field up to column 80", full80))
			}
			r.AddStates(cnt)
			r.AddNontrivial(nt)
			r.Bound("files", fmt.Sprintf("every feature list of length <=%d over 13 feature shapes x every assignment of the other dimensions with at most 2 deviations (sequence length %v, locus name, molecule type, topology, division/date, DEFINITION wrap, KEYWORDS, ORGANISM lineage, 0/1/2/5 references in 4 styles, COMMENT/DBLINK, 1/2/3/5 records, Parse/ParseMulti/ParseFlat, final newline)", maxF, lengths))
		}})
	}
	// representative cases through the file wrappers, and large records
	us = append(us, mc.Unit{Name: "wrappers+large", Weight: 50, Run: func(r *mc.Recorder) {
		dir, err := os.MkdirTemp("", "c01")
		if err != nil {
			panic(err)
		}
		defer os.RemoveAll(dir)
		var tags []string
		var rec gbRec
		once(func(c *mc.Ctx) { rec = gbGenRecord(c, gbGenOpts{maxFeatures: 0, lengths: []int{120}}, 0, &tags) })
		for i := 0; i < 40; i++ {
			rec.feats = append(rec.feats, gbShape([]int{0, 2, 5, 9, 11, 12, 10}[i%7], i, 120))
		}
		rec.refs = append(rec.refs, rec.refs[0], rec.refs[0])
		for i := range rec.refs {
			rec.refs[i].index = i + 1
		}
		rec2 := rec
		rec2.locusName, rec2.seq = "second", gbSeq(100000, 3) // more than 64 KiB of text in one record
		rec2.refs[0].rng = fmt.Sprintf("(bases 1 to %d)", len(rec2.seq))
		text := gbWrite(rec) + gbWrite(rec2)
		cases := []struct {
			name string
			run  func() []poly.Sequence
		}{
			{"Read", func() []poly.Sequence {
				p := filepath.Join(dir, "one.gb")
				os.WriteFile(p, []byte(gbWrite(rec)), 0o644)
				return []poly.Sequence{genbank.Read(p), genbank.Parse([]byte(gbWrite(rec2)))}
			}},
			{"ReadMulti", func() []poly.Sequence {
				p := filepath.Join(dir, "multi.gb")
				os.WriteFile(p, []byte(text), 0o644)
				return genbank.ReadMulti(p)
			}},
			{"ReadFlat", func() []poly.Sequence {
				p := filepath.Join(dir, "flat.seq")
				os.WriteFile(p, []byte(gbFlatHeader+text), 0o644)
				return genbank.ReadFlat(p)
			}},
			{"ReadFlatGz", func() []poly.Sequence {
				p := filepath.Join(dir, "flat.seq.gz")
				var z bytes.Buffer
				w := gzip.NewWriter(&z)
				w.Write([]byte(gbFlatHeader + text))
				w.Close()
				os.WriteFile(p, z.Bytes(), 0o644)
				return genbank.ReadFlatGz(p)
			}},
		}
		for _, cs := range cases {
			var got []poly.Sequence
			cas := cs.name + " of a 40-feature record and a long record"
			if p := catch(func() { got = cs.run() }); p != "" {
				r.Failf("no-panic", cas, []string{"wrapper"}, "records", "panic: "+p)
				continue
			}
			if len(got) != 2 {
				r.Failf("k-records", cas, []string{"wrapper"}, "2 records", fmt.Sprint(len(got)))
				continue
			}
			c1compare(rec, got[0], func(clause, exp, g string) { r.Failf(clause, cas+" record 1", []string{"wrapper"}, exp, g) })
			c1compare(rec2, got[1], func(clause, exp, g string) { r.Failf(clause, cas+" record 2", []string{"wrapper"}, exp, g) })
		}
		r.Eval(int64(len(cases)))
		r.AddStates(int64(len(cases)))
		r.AddTransitions(int64(len(cases)))
		r.AddNontrivial(int64(len(cases)))
	}})
	// every subset of the five sub-keywords of a REFERENCE block, in each of two references
	us = append(us, mc.Unit{Name: "reference-subsets", Weight: 30, Run: func(r *mc.Recorder) {
		var tags []string
		var base gbRec
		once(func(c *mc.Ctx) { base = gbGenRecord(c, gbGenOpts{maxFeatures: 1, lengths: []int{60}}, 0, &tags) })
		var cnt int64
		mk := func(i, mask int) gbRef {
			ref := gbRef{index: i, rng: "(bases 1 to 60)"}
			if mask&1 != 0 {
				ref.authors = fmt.Sprintf("Author%d,A. and Other,B.", i)
			}
			if mask&2 != 0 {
				ref.title = fmt.Sprintf("Title number %d of the reference", i)
			}
			if mask&4 != 0 {
				ref.journal = fmt.Sprintf("J. Verif. %d (1), 1-2 (2000)", i)
			}
			if mask&8 != 0 {
				ref.pubmed = fmt.Sprint(7000 + i)
			}
			if mask&16 != 0 {
				ref.remark = fmt.Sprintf("Erratum:[J. Verif. 2000;%d(2):99]", i)
			}
			return ref
		}
		for m1 := 0; m1 < 32; m1++ {
			for m2 := 0; m2 < 32; m2++ {
				rec := base
				rec.refs = []gbRef{mk(1, m1), mk(2, m2)}
				cas := fmt.Sprintf("two references with sub-keyword sets %05b and %05b (bits: AUTHORS, TITLE, JOURNAL, PUBMED, REMARK)", m1, m2)
				var got poly.Sequence
				cnt++
				if p := catch(func() { got = genbank.Parse([]byte(gbWrite(rec))) }); p != "" {
					r.Failf("no-panic", cas, []string{"reference-subset"}, "a record", "panic: "+p)
					continue
				}
				c1compare(rec, got, func(clause, exp, g string) { r.Failf(clause, cas, []string{"reference-subset"}, exp, g) })
			}
		}
		r.Eval(cnt)
		r.AddStates(cnt)
		r.AddTransitions(cnt)
		r.AddNontrivial(cnt)
		r.Bound("reference-subsets", "all 32 x 32 subsets of AUTHORS, TITLE, JOURNAL, PUBMED, REMARK in two references")
	}})
	// every printable character at a wrap point: as the last character of a full line, as the first character of a
	// continuation line and as a one-letter word at either place, in a qualifier value, the DEFINITION and a COMMENT
	us = append(us, mc.Unit{Name: "wrap-boundaries", Weight: 40, Run: func(r *mc.Recorder) {
		var tags []string
		var base gbRec
		once(func(c *mc.Ctx) { base = gbGenRecord(c, gbGenOpts{maxFeatures: 0, lengths: []int{60}}, 0, &tags) })
		var cnt int64
		// place builds a text whose word-wrapping (width, firstUsed) puts the word w at the end of the first line
		// (where=0) or at the start of the second line (where=1)
		place := func(w string, width, firstUsed, where int) (string, bool) {
			for fill := 1; fill < width; fill++ {
				text := "start " + strings.Repeat("x", fill)
				if where == 0 {
					text += w + " next words follow here"
				} else {
					text += " " + w + "tail and more words"
				}
				lines := wrapWords(text, width, firstUsed)
				if len(lines) < 2 {
					continue
				}
				if where == 0 && strings.HasSuffix(lines[0], w) && len(lines[0]) == width-firstUsed {
					return text, true
				}
				if where == 1 && strings.HasPrefix(lines[1], w) && len(lines[0])+1+len(w)+4 > width-firstUsed {
					return text, true
				}
			}
			return "", false
		}
		for ch := 0x21; ch <= 0x7e; ch++ {
			if ch == '"' {
				continue // a quotation mark inside a value is written doubled: a different rule
			}
			for _, form := range []string{string(rune(ch)), " " + string(rune(ch))} { // glued to the word, or a word of its own
				for where := 0; where < 2; where++ {
					if where == 1 && ch == '/' {
						continue // a continuation line that starts with '/' reads as a new qualifier in any GenBank reader
					}
					w := form
					if where == 1 {
						w = strings.TrimPrefix(form, " ")
						if form != w {
							w += " "
						}
					}
					for field := 0; field < 3; field++ {
						rec := base
						var ok bool
						var text string
						switch field {
						case 0:
							text, ok = place(w, gbFieldWidth, len("/note=\""), where)
							rec.feats = []gbFeat{{"misc_feature", "1..30", []gbQual{{key: "note", val: text}, {key: "gene", val: "after"}}}, {"gene", "31..40", []gbQual{{key: "gene", val: "second"}}}}
						case 1:
							text, ok = place(w, 68, 0, where)
							rec.definition = text
						case 2:
							text, ok = place(w, 68, 0, where)
							rec.extra = []gbExtra{{"COMMENT", text}}
						}
						if !ok {
							continue
						}
						cas := fmt.Sprintf("character %q %s in %s: %q", rune(ch), []string{"ending a full line", "starting a continuation line"}[where], []string{"a qualifier value", "the DEFINITION", "a COMMENT"}[field], text)
						var got poly.Sequence
						cnt++
						if p := catch(func() { got = genbank.Parse([]byte(gbWrite(rec))) }); p != "" {
							r.Failf("no-panic", cas, []string{"wrap-boundary"}, "a record", "panic: "+p)
							continue
						}
						c1compare(rec, got, func(clause, exp, g string) { r.Failf(clause, cas, []string{"wrap-boundary"}, exp, g) })
					}
				}
			}
		}
		// the format's own keywords as the first word of a continuation line and as the last word of a full line, in a
		// qualifier value, the DEFINITION and a COMMENT
		for _, kw := range []string{"LOCUS", "DEFINITION", "ACCESSION", "VERSION", "KEYWORDS", "SOURCE", "ORGANISM", "REFERENCE", "AUTHORS", "TITLE", "JOURNAL", "PUBMED", "REMARK", "COMMENT", "FEATURES", "ORIGIN", "CONTIG", "DBLINK", "BASE COUNT", "source", "gene", "CDS", "//", "Location/Qualifiers"} {
			for where := 0; where < 2; where++ {
				if kw == "//" && where == 0 {
					continue // no line other than a record terminator ends in "//" (the property's domain)
				}
				for field := 0; field < 3; field++ {
					if field == 0 && where == 1 && strings.HasPrefix(kw, "/") {
						continue // a qualifier continuation line that starts with '/' reads as a new qualifier in any reader
					}
					rec := base
					var ok bool
					var text string
					w := " " + kw
					if where == 1 {
						w = kw + " "
					}
					switch field {
					case 0:
						text, ok = place(w, gbFieldWidth, len("/note=\""), where)
						rec.feats = []gbFeat{{"misc_feature", "1..30", []gbQual{{key: "note", val: text}, {key: "gene", val: "after"}}}, {"gene", "31..40", []gbQual{{key: "gene", val: "second"}}}}
					case 1:
						text, ok = place(w, 68, 0, where)
						rec.definition = text
					case 2:
						text, ok = place(w, 68, 0, where)
						rec.extra = []gbExtra{{"COMMENT", text}}
					}
					if !ok {
						continue
					}
					cas := fmt.Sprintf("keyword %q %s in %s: %q", kw, []string{"ending a full line", "starting a continuation line"}[where], []string{"a qualifier value", "the DEFINITION", "a COMMENT"}[field], text)
					var got poly.Sequence
					cnt++
					if p := catch(func() { got = genbank.Parse([]byte(gbWrite(rec))) }); p != "" {
						r.Failf("no-panic", cas, []string{"wrap-boundary"}, "a record", "panic: "+p)
						continue
					}
					c1compare(rec, got, func(clause, exp, g string) { r.Failf(clause, cas, []string{"wrap-boundary"}, exp, g) })
				}
			}
		}
		// unbroken words of every length up to the width of the field, as the first word of a value and as a later word
		// (a word that fills its line exactly leaves no blank on that line)
		for L := 1; L <= 68; L++ {
			word := lcgString("abcdefghijklmnopqrstuvwxyz0123456789_.:", L, uint32(L))
			for form := 0; form < 3; form++ {
				text := []string{word + " next words follow here and then some more text so that the value wraps at least twice over the width of the field",
					"start " + word + " tail words follow here and then some more text so that the value wraps once more",
					"two words " + word + " " + word + " end"}[form]
				for field := 0; field < 3; field++ {
					if field == 0 && L > gbFieldWidth {
						continue
					}
					rec := base
					switch field {
					case 0:
						rec.feats = []gbFeat{{"misc_feature", "1..30", []gbQual{{key: "note", val: text}, {key: "gene", val: "after"}}}, {"gene", "31..40", []gbQual{{key: "gene", val: "second"}}}}
					case 1:
						rec.definition = text
					case 2:
						rec.extra = []gbExtra{{"COMMENT", text}}
					}
					cas := fmt.Sprintf("unbroken word of %d letters (form %d) in %s", L, form, []string{"a qualifier value", "the DEFINITION", "a COMMENT"}[field])
					var got poly.Sequence
					cnt++
					if p := catch(func() { got = genbank.Parse([]byte(gbWrite(rec))) }); p != "" {
						r.Failf("no-panic", cas, []string{"wrap-boundary"}, "a record", "panic: "+p)
						continue
					}
					c1compare(rec, got, func(clause, exp, g string) { r.Failf(clause, cas, []string{"wrap-boundary"}, exp, g) })
				}
			}
		}
		r.Eval(cnt)
		r.AddStates(cnt)
		r.AddTransitions(cnt)
		r.AddNontrivial(cnt)
		r.Bound("wrap-boundaries", "unbroken words of every length 1..68 in three positions; 93 printable characters x glued / own word x end of a full line / start of a continuation line x qualifier value, DEFINITION, COMMENT")
	}})
	return us
}

func gbShapeIndex(tags []string) int {
	for _, t := range tags {
		if strings.HasPrefix(t, "feature:") {
			for i, n := range gbShapeNames {
				if t == "feature:"+n {
					return i
				}
			}
		}
	}
	return -1
}

func gbFeatureTags(tags []string) []string {
	var o []string
	for _, t := range tags {
		if strings.HasPrefix(t, "feature:") {
			o = append(o, strings.TrimPrefix(t, "feature:"))
		}
	}
	return o
}

func init() {
	mc.Register(&mc.Harness{ID: "C01", Units: c01units,
		Rule:   "distinct GenBank files laid out by an independent flat-file writer from abstract records: the feature list enumerated completely over 13 feature shapes up to a length bound, every other dimension with a deviation bound of 2; non-trivial = every file (each differs from the others in at least one feature or deviation)",
		Assume: []string{"the generator asserts the quantifier's side conditions (no non-terminator line ends in //, qualifier values without double quotes, words never longer than a line)", "wrapped text is re-joined with single blanks, /translation without"}})
}
