//go:build c17

package props

import (
	"fmt"
	"sort"
	"strings"

	"github.com/TimothyStiles/poly/primers"

	"verif/mc"
)

func c17rc(s string) string {
	c := map[byte]byte{'A': 'T', 'T': 'A', 'G': 'C', 'C': 'G'}
	o := make([]byte, len(s))
	for i := 0; i < len(s); i++ {
		o[len(s)-1-i] = c[s[i]]
	}
	return string(o)
}

// c17deBruijnOK: length 4^n+n-1 and every n-letter word over ATGC exactly once.
func c17deBruijnOK(s string, n int) string {
	want := int(pow(4, n)) + n - 1
	if len(s) != want {
		return fmt.Sprintf("length %d, want %d", len(s), want)
	}
	code := map[byte]int{'A': 0, 'T': 1, 'G': 2, 'C': 3}
	seen := make([]bool, pow(4, n))
	for i := 0; i+n <= len(s); i++ {
		k := 0
		for j := 0; j < n; j++ {
			d, ok := code[s[i+j]]
			if !ok {
				return fmt.Sprintf("letter %q at %d", s[i+j], i+j)
			}
			k = k*4 + d
		}
		if seen[k] {
			return fmt.Sprintf("word %s occurs twice (second time at %d)", s[i:i+n], i)
		}
		seen[k] = true
	}
	for k, ok := range seen {
		if !ok {
			return fmt.Sprintf("a word is missing (index %d)", k)
		}
	}
	return ""
}

type c17filter struct {
	name string
	f    func(string) bool
}

// c17avoid builds filters from one function literal (closures that share their code and differ in what they capture)
func c17avoid(sub string) c17filter {
	return c17filter{"avoid:" + sub, func(s string) bool { return !strings.Contains(s, sub) }}
}

var c17filters = []c17filter{
	{"noAA", func(s string) bool { return !strings.Contains(s, "AA") }},
	{"hasGC", func(s string) bool { return strings.ContainsAny(s, "GC") }},
	{"notStartG", func(s string) bool { return !strings.HasPrefix(s, "G") }},
	{"notOwnRC", func(s string) bool { return s != c17rc(s) }},
}

// c17judge checks one barcode list.
func c17judge(r *mc.Recorder, cas string, tags []string, seq string, n, length int, banned []string, filters []c17filter, got []string) {
	words := map[string]int{}
	for bi, b := range got {
		if len(b) != length {
			r.Failf("barcode-length", cas, tags, fmt.Sprint(length), fmt.Sprintf("barcode %d %q has length %d", bi, b, len(b)))
			return
		}
		if !strings.Contains(seq, b) {
			r.Failf("barcode-substring", cas, tags, "a substring of the De Bruijn sequence", fmt.Sprintf("barcode %d %q", bi, b))
			return
		}
		for i := 0; i+n <= len(b); i++ {
			w := b[i : i+n]
			if o, ok := words[w]; ok && o != bi {
				r.Failf("barcodes-share-no-word", cas, tags, "no n-letter word in two barcodes", fmt.Sprintf("%s in barcodes %d (%s) and %d (%s)", w, o, got[o], bi, b))
				return
			}
			words[w] = bi
		}
		for _, bn := range banned {
			if strings.Contains(b, bn) || strings.Contains(b, c17rc(bn)) {
				r.Failf("ban-free", cas, tags, fmt.Sprintf("no barcode contains %s or %s", bn, c17rc(bn)), fmt.Sprintf("barcode %d %q", bi, b))
				return
			}
		}
		for _, f := range filters {
			if !f.f(b) {
				r.Failf("filters-accept", cas, tags, "filter "+f.name+" accepts every barcode", fmt.Sprintf("barcode %d %q", bi, b))
				return
			}
		}
	}
}

func c17units(tier string) []mc.Unit {
	var us []mc.Unit
	maxOrder := tier2(tier, 8, 11)
	for n := 1; n <= maxOrder; n++ {
		n := n
		us = append(us, mc.Unit{Name: fmt.Sprintf("sequence/n=%d", n), Weight: int(pow(4, n)/1000) + 1, Run: func(r *mc.Recorder) {
			var s string
			if p := catch(func() { s = primers.NucleobaseDeBruijnSequence(n) }); p != "" {
				r.Failf("no-panic", fmt.Sprint("order ", n), nil, "a sequence", "panic: "+p)
				return
			}
			if msg := c17deBruijnOK(s, n); msg != "" {
				r.Failf("de-bruijn", fmt.Sprint("order ", n), nil, fmt.Sprintf("length 4^%d+%d-1, every %d-letter word once", n, n, n), msg)
			}
			r.Eval(1)
			r.AddStates(pow(4, n))
			r.AddTransitions(int64(len(s)))
			r.AddNontrivial(1)
			if n == 2 {
				r.Sample(fmt.Sprintf("NucleobaseDeBruijnSequence(2) = %s: 17 letters, each of the 16 two-letter words once", s))
			}
			r.Bound("sequence", fmt.Sprintf("every order 1..%d", maxOrder))
		}})
	}
	us = append(us, historyUnit("api-histories", []hcall{
		{"NucleobaseDeBruijnSequence(3)", func() any { return primers.NucleobaseDeBruijnSequence(3) }, showSprint},
		{"CreateBarcodes(6,3)", func() any { return primers.CreateBarcodes(6, 3) }, showSprint},
		{"CreateBarcodes(5,2)", func() any { return primers.CreateBarcodes(5, 2) }, showSprint},
		{"CreateBarcodesWithBannedSequences(6,3,[TT])", func() any { return primers.CreateBarcodesWithBannedSequences(6, 3, []string{"TT"}, nil) }, showSprint},
		{"CreateBarcodesWithBannedSequences(6,3,[GA,CTT],noAA)", func() any {
			return primers.CreateBarcodesWithBannedSequences(6, 3, []string{"GA", "CTT"}, []func(string) bool{c17filters[0].f})
		}, showSprint},
		{"CreateBarcodesWithBannedSequences(20,4,[],avoid:TG,avoid:CC)", func() any {
			return primers.CreateBarcodesWithBannedSequences(20, 4, nil, []func(string) bool{c17avoid("TG").f, c17avoid("CC").f})
		}, showSprint},
	}, 3))
	// barcodes with bans and filters
	var pool []string
	for _, l := range []int{2, 3} {
		enumStrings("ATGC", l, func(b []byte) { pool = append(pool, string(b)) })
	}
	orders := []int{2, 3}
	if tier == "thorough" {
		orders = []int{2, 3, 4}
	}
	for _, n := range orders {
		for _, length := range []int{n, n + 1, n + 2, n + 3, n + 4, 20, 60} {
			n, length := n, length
			us = append(us, mc.Unit{Name: fmt.Sprintf("barcodes/n=%d/len=%d", n, length), Weight: 60, Run: func(r *mc.Recorder) {
				seq := primers.NucleobaseDeBruijnSequence(n)
				if c17deBruijnOK(seq, n) != "" {
					r.Skip(1)
					return
				}
				var cnt, nt int64
				run := func(banned []string, fm int) {
					var fs []c17filter
					var ff []func(string) bool
					var names []string
					for i, f := range c17filters {
						if fm&(1<<i) != 0 {
							fs = append(fs, f)
							ff = append(ff, f.f)
							names = append(names, f.name)
						}
					}
					var got []string
					cas := fmt.Sprintf("order=%d length=%d banned=%v filters=%v", n, length, banned, names)
					tags := []string{fmt.Sprintf("bans=%d", len(banned)), fmt.Sprintf("filters=%d", len(fs))}
					if p := catch(func() { got = primers.CreateBarcodesWithBannedSequences(length, n, banned, ff) }); p != "" {
						r.Failf("no-panic", cas, tags, "a list", "panic: "+p)
						return
					}
					cnt++
					if len(got) > 0 && (len(banned) > 0 || len(fs) > 0) {
						nt++
					}
					c17judge(r, cas, tags, seq, n, length, banned, fs, got)
					if len(banned) == 0 && fm == 0 {
						var plain []string
						if p := catch(func() { plain = primers.CreateBarcodes(length, n) }); p != "" || strings.Join(plain, ",") != strings.Join(got, ",") {
							r.Failf("plain-equals-no-bans", cas, tags, strings.Join(got, ","), strings.Join(plain, ",")+p)
						}
					}
					if cnt == 50 {
						r.Sample(cas + " -> " + strings.Join(got, ","))
					}
				}
				for fm := 0; fm < 16; fm++ {
					run(nil, fm)
					for _, a := range pool {
						run([]string{a}, fm)
					}
				}
				// filters that are closures of one literal: every pair and a triple
				subs := []string{"AA", "TG", "CC", "GA"}
				for i := range subs {
					for j := range subs {
						if i == j {
							continue
						}
						var fs []c17filter
						var ff []func(string) bool
						for _, x := range []string{subs[i], subs[j]} {
							f := c17avoid(x)
							fs = append(fs, f)
							ff = append(ff, f.f)
						}
						if j == (i+1)%len(subs) {
							f := c17avoid(subs[(j+1)%len(subs)])
							fs = append(fs, f)
							ff = append(ff, f.f)
						}
						var got []string
						cas := fmt.Sprintf("order=%d length=%d banned=[] filters=%v", n, length, []string{fs[0].name, fs[1].name, fmt.Sprint(len(fs))})
						if p := catch(func() { got = primers.CreateBarcodesWithBannedSequences(length, n, nil, ff) }); p != "" {
							r.Failf("no-panic", cas, nil, "a list", "panic: "+p)
							continue
						}
						cnt++
						c17judge(r, cas, []string{"closure-filters"}, seq, n, length, nil, fs, got)
					}
				}
				for i, a := range pool {
					for _, b := range pool[i+1:] {
						run([]string{a, b}, 0)
						run([]string{b, a}, 0)
						run([]string{a, b}, 5)
					}
				}
				if tier == "thorough" && n <= 3 {
					// three bans of length 2
					p2 := pool[:16]
					for i := range p2 {
						for j := i + 1; j < len(p2); j++ {
							for k := j + 1; k < len(p2); k++ {
								run([]string{p2[i], p2[j], p2[k]}, 0)
							}
						}
					}
				}
				r.Eval(cnt)
				r.AddStates(cnt)
				r.AddTransitions(cnt)
				r.AddNontrivial(nt)
				r.Bound("barcodes", "orders "+fmt.Sprint(orders)+", lengths n..n+4, 20, 60; all ban sets of size 0,1,2 over ATGC strings of length 2..3 (both orders of a pair); all 16 filter subsets with 0 or 1 ban")
			}})
		}
	}
	// orders 5 and 6 (1028 and 4101 letters, more than a thousand barcode slots): every single ban of length 2..3
	for _, n := range []int{5, 6} {
		for _, length := range []int{n, n + 1, n + 2} {
			n, length := n, length
			us = append(us, mc.Unit{Name: fmt.Sprintf("barcodes-many-slots/n=%d/len=%d", n, length), Weight: 80, Run: func(r *mc.Recorder) {
				seq := primers.NucleobaseDeBruijnSequence(n)
				if c17deBruijnOK(seq, n) != "" {
					r.Skip(1)
					return
				}
				var cnt int64
				for _, ban := range append([]string{""}, pool...) {
					var banned []string
					if ban != "" {
						banned = []string{ban}
					}
					var got []string
					cas := fmt.Sprintf("order=%d length=%d banned=%v filters=[]", n, length, banned)
					if p := catch(func() { got = primers.CreateBarcodesWithBannedSequences(length, n, banned, nil) }); p != "" {
						r.Failf("no-panic", cas, nil, "a list", "panic: "+p)
						continue
					}
					cnt++
					c17judge(r, cas, []string{fmt.Sprintf("bans=%d", len(banned))}, seq, n, length, banned, nil, got)
				}
				r.Eval(cnt)
				r.AddStates(cnt)
				r.AddTransitions(cnt)
				r.AddNontrivial(cnt)
			}})
		}
	}
	if tier == "thorough" {
		for n := 5; n <= 8; n++ {
			n := n
			us = append(us, mc.Unit{Name: fmt.Sprintf("barcodes-large/n=%d", n), Weight: 200, Run: func(r *mc.Recorder) {
				seq := primers.NucleobaseDeBruijnSequence(n)
				var cnt int64
				for _, length := range []int{n, n + 3, 20, 60} {
					for _, banned := range [][]string{nil, {"GGTCTC"}, {"AAAA"}, {"ATAT", "GCGC"}, {"TTT", "CCC", "AAA"}} {
						var got []string
						cas := fmt.Sprintf("order=%d length=%d banned=%v", n, length, banned)
						if p := catch(func() { got = primers.CreateBarcodesWithBannedSequences(length, n, banned, nil) }); p != "" {
							r.Failf("no-panic", cas, nil, "a list", "panic: "+p)
							continue
						}
						cnt++
						c17judge(r, cas, []string{fmt.Sprintf("bans=%d", len(banned))}, seq, n, length, banned, nil, got)
					}
				}
				r.Eval(cnt)
				r.AddStates(cnt)
				r.AddTransitions(cnt)
			}})
		}
	}
	_ = sort.Strings
	return us
}

func init() {
	mc.Register(&mc.Harness{ID: "C17", Units: c17units,
		Rule:   "sequence: every order; barcodes: distinct (order, length, ban set, filter subset) calls enumerated completely within the bounds; non-trivial = calls with at least one ban or filter that return at least one barcode",
		Assume: []string{"maximality of the barcode list is not claimed by the statement and not checked"}})
}
