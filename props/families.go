package props

import (
	"os"
	"path/filepath"
	"runtime"
	"sort"
	"syscall"
)

// Structured input families beyond the exhaustive cores. The exhaustive cores
// enumerate every input up to a small size; behaviour that changes at a
// threshold far above that size (a buffer, a fast path, a chunk, a cap), or on
// a particular shape of content, is reached by enumerated families instead:
// every length of a dense range, then lengths growing geometrically, each with
// a fixed set of shapes. The families are bounded, deterministic and listed in
// the evidence; unlike the cores they do not cover their size range completely
// in content, only in length and shape.

// sweepLengths returns every length from lo to dense and then lengths growing
// by about 7% up to max (max included).
func sweepLengths(lo, dense, max int) []int {
	var out []int
	for n := lo; n <= dense && n <= max; n++ {
		out = append(out, n)
	}
	for n := dense + 1; n < max; n = n + n/14 + 1 {
		out = append(out, n)
	}
	if len(out) == 0 || out[len(out)-1] != max {
		out = append(out, max)
	}
	return out
}

// lcgString returns a pseudo-random string of n letters over alpha (a fixed
// linear congruential sequence: the same string for the same arguments).
func lcgString(alpha string, n int, seed uint32) string {
	x := seed*2654435761 + 12345
	b := make([]byte, n)
	for i := range b {
		x = x*1664525 + 1013904223
		b[i] = alpha[int(x>>16)%len(alpha)]
	}
	return string(b)
}

func dnaRC(s string) string {
	m := map[byte]byte{'A': 'T', 'C': 'G', 'G': 'C', 'T': 'A', 'a': 't', 'c': 'g', 'g': 'c', 't': 'a'}
	b := make([]byte, len(s))
	for i := 0; i < len(s); i++ {
		b[len(s)-1-i] = m[s[i]]
	}
	return string(b)
}

type shaped struct{ shape, s string }

// dnaShapes returns the structured A/C/G/T strings of exactly n letters:
// homopolymers, a single least/greatest letter at either end, alternations,
// short periods with one change at the end, pseudo-random strings, and
// inverted repeats (an arm, a core, the arm's reverse complement) with
// self-complementary and non-self-complementary cores.
func dnaShapes(n int) []shaped {
	var out []shaped
	if n == 0 {
		return []shaped{{"empty", ""}}
	}
	rep := func(unit string) string {
		b := make([]byte, n)
		for i := range b {
			b[i] = unit[i%len(unit)]
		}
		return string(b)
	}
	for _, c := range []string{"A", "C", "G", "T"} {
		out = append(out, shaped{"homopolymer " + c, rep(c)})
	}
	if n >= 2 {
		out = append(out,
			shaped{"C^(n-1) A", rep("C")[:n-1] + "A"}, shaped{"A C^(n-1)", "A" + rep("C")[:n-1]},
			shaped{"A^(n-1) T", rep("A")[:n-1] + "T"}, shaped{"T A^(n-1)", "T" + rep("A")[:n-1]},
			shaped{"(GC)*", rep("GC")}, shaped{"(AT)*", rep("AT")}, shaped{"(ACG)*", rep("ACG")},
			shaped{"(ACGT)* last letter changed", rep("ACGT")[:n-1] + "A"},
			shaped{"G/C rich", lcgString("GGGCCCGCGCA", n, 5)})
	}
	out = append(out, shaped{"pseudo-random 1", lcgString("ACGT", n, 1)}, shaped{"pseudo-random 2", lcgString("ACGT", n, 2)})
	// inverted repeats: arm + core + rc(arm)
	for _, core := range []string{"", "AA", "AT", "ACC", "G"} {
		if n < len(core)+2 || (n-len(core))%2 != 0 {
			continue
		}
		arm := lcgString("ACGT", (n-len(core))/2, 7)
		out = append(out, shaped{"inverted repeat, core " + core, arm + core + dnaRC(arm)})
	}
	// inverted terminal repeats of fixed arm lengths around a longer core
	for _, a := range []int{8, 31, 32, 33, 40, 64, 65} {
		if n >= 2*a+3 {
			arm := lcgString("ACGT", a, 11)
			out = append(out, shaped{"inverted terminal repeat, arm " + itoa(a), arm + lcgString("ACGT", n-2*a, 13) + dnaRC(arm)})
		}
	}
	return out
}

func itoa(n int) string {
	if n == 0 {
		return "0"
	}
	neg := n < 0
	if neg {
		n = -n
	}
	var b []byte
	for n > 0 {
		b = append([]byte{byte('0' + n%10)}, b...)
		n /= 10
	}
	if neg {
		return "-" + string(b)
	}
	return string(b)
}

// withProcs runs f under each GOMAXPROCS setting in turn (the number of
// processors is an answer of the environment; code that sizes worker pools by
// it behaves differently for 1, a power of two and a number that divides
// nothing) and restores the previous setting.
func withProcs(procs []int, f func(p int)) {
	old := runtime.GOMAXPROCS(0)
	defer runtime.GOMAXPROCS(old)
	for _, p := range procs {
		runtime.GOMAXPROCS(p)
		f(p)
	}
}

var procsMenu = []int{1, 3, 4, 7, 16}

// scratchRoots returns writable directories on distinct file systems (the
// default temporary directory first): where a file lives is an answer of the
// environment too (rename across devices, a relative path, a long path).
func scratchRoots() []string {
	var out []string
	seen := map[uint64]bool{}
	cands := []string{os.TempDir(), "/dev/shm", "/run/shm", "."}
	if wd, err := os.Getwd(); err == nil {
		cands = append(cands, wd)
	}
	for _, d := range cands {
		var st syscall.Stat_t
		if syscall.Stat(d, &st) != nil || seen[uint64(st.Dev)] {
			continue
		}
		t, err := os.MkdirTemp(d, "verif-scratch-")
		if err != nil {
			continue
		}
		os.Remove(t)
		seen[uint64(st.Dev)] = true
		abs, _ := filepath.Abs(d)
		out = append(out, abs)
	}
	sort.Strings(out[1:])
	return out
}

// soak runs every failing call n times (panics are swallowed): state that a failing call leaves behind (a counter
// not decremented, a pooled buffer put back dirty) only shows in the calls made afterwards, so a soak is followed by
// the property's ordinary battery of in-domain calls.
func soak(n int, fails ...func()) {
	for i := 0; i < n; i++ {
		for _, f := range fails {
			catch(f)
		}
	}
}
