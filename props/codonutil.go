package props

import (
	"encoding/json"
	"fmt"
	"math"
	"sort"
	"strings"

	"github.com/TimothyStiles/poly/transform/codon"

	"verif/mc"
	"verif/vrand"
)

// Helpers shared by the codon-table properties (C07, C08, C18). Tables are
// always compared as codon -> (weight, amino acid) maps: the order of amino
// acids and of codons inside a table is not part of any statement.

var allCodons = func() []string {
	var out []string
	for _, a := range "TCAG" {
		for _, b := range "TCAG" {
			for _, c := range "TCAG" {
				out = append(out, string([]rune{a, b, c}))
			}
		}
	}
	return out
}()

type tableView struct {
	w      map[string]int
	letter map[string]string
	dup    string // a triplet that occurs twice, if any
}

func viewOf(t codon.Table) tableView {
	v := tableView{w: map[string]int{}, letter: map[string]string{}}
	for _, aa := range t.AminoAcids {
		for _, c := range aa.Codons {
			if _, ok := v.w[c.Triplet]; ok {
				v.dup = c.Triplet
			}
			v.w[c.Triplet] = c.Weight
			v.letter[c.Triplet] = aa.Letter
		}
	}
	return v
}

func (v tableView) weights() string {
	var b strings.Builder
	for _, c := range allCodons {
		if w, ok := v.w[c]; ok {
			fmt.Fprintf(&b, "%d,", w)
		} else {
			b.WriteString("-,")
		}
	}
	return b.String()
}

func (v tableView) letters() string {
	var b strings.Builder
	for _, c := range allCodons {
		if l, ok := v.letter[c]; ok {
			b.WriteString(l)
		} else {
			b.WriteString("?")
		}
	}
	return b.String()
}

func (v tableView) diff(o tableView) string {
	var d []string
	for _, c := range allCodons {
		if v.w[c] != o.w[c] || v.letter[c] != o.letter[c] {
			d = append(d, fmt.Sprintf("%s:%s%d/%s%d", c, v.letter[c], v.w[c], o.letter[c], o.w[c]))
		}
	}
	if len(v.w) != len(o.w) {
		d = append(d, fmt.Sprintf("codons:%d/%d", len(v.w), len(o.w)))
	}
	if len(d) > 8 {
		d = append(d[:8], fmt.Sprintf("… %d codons differ", len(d)))
	}
	return strings.Join(d, " ")
}

func deepCopyTable(t codon.Table) codon.Table {
	var c codon.Table
	c.StartCodons = append([]string(nil), t.StartCodons...)
	c.StopCodons = append([]string(nil), t.StopCodons...)
	for _, aa := range t.AminoAcids {
		c.AminoAcids = append(c.AminoAcids, codon.AminoAcid{Letter: aa.Letter, Codons: append([]codon.Codon(nil), aa.Codons...)})
	}
	return c
}

// inFrameCounts: number of in-frame occurrences of each triplet, upper-cased.
func inFrameCounts(s string) map[string]int {
	u := strings.ToUpper(s)
	m := map[string]int{}
	for i := 0; i+3 <= len(u); i += 3 {
		m[u[i:i+3]]++
	}
	return m
}

// seqForCounts builds a coding sequence that realises the given codon counts.
func seqForCounts(cnt map[string]int) string {
	var keys []string
	for k := range cnt {
		keys = append(keys, k)
	}
	sort.Strings(keys)
	var b strings.Builder
	for _, k := range keys {
		b.WriteString(strings.Repeat(k, cnt[k]))
	}
	return b.String()
}

// synonyms groups the codons of a view by amino-acid letter.
func (v tableView) synonyms() map[string][]string {
	m := map[string][]string{}
	for _, c := range allCodons {
		if l, ok := v.letter[c]; ok {
			m[l] = append(m[l], c)
		}
	}
	return m
}

// compromiseCheck compares a compromise table with the statement: per codon the
// mean of the two per-amino-acid usage shares scaled to 10000 (+-1), or zero if
// either share is below the cut-off (shares within 1e-4 of the cut-off are
// accepted either way). Amino acids whose total is zero in either table are
// outside the statement and skipped. Returns a description of the first
// mismatch, or "".
func compromiseCheck(a, b, got tableView, cutoff float64) string {
	for l, cods := range a.synonyms() {
		ta, tb := 0, 0
		for _, c := range cods {
			ta += a.w[c]
			tb += b.w[c]
		}
		if ta <= 0 || tb <= 0 {
			continue
		}
		for _, c := range cods {
			if _, ok := b.w[c]; !ok {
				continue
			}
			sa, sb := float64(a.w[c])/float64(ta), float64(b.w[c])/float64(tb)
			g, ok := got.w[c]
			if !ok {
				return fmt.Sprintf("codon %s (%s) missing from the result", c, l)
			}
			if got.letter[c] != l {
				return fmt.Sprintf("codon %s assigned to %s, first table says %s", c, got.letter[c], l)
			}
			mean := (sa + sb) / 2 * 10000
			okMean := math.Abs(float64(g)-mean) <= 1.0000001
			okZero := g == 0
			// a share within 1e-4 of the cut-off may fall on either side after the scaling to 10000; a share that IS the
			// cut-off (0 with cut-off 0, 1 with cut-off 1, 1/2 with 0.5 ...) is not below it and must be kept
			nearCut := (math.Abs(sa-cutoff) <= 1e-4 && sa != cutoff) || (math.Abs(sb-cutoff) <= 1e-4 && sb != cutoff)
			below := sa < cutoff || sb < cutoff
			switch {
			case nearCut:
				if !okMean && !okZero {
					return fmt.Sprintf("codon %s: shares %.5f %.5f cut-off %g: want 0 or %.1f, got %d", c, sa, sb, cutoff, mean, g)
				}
			case below:
				if !okZero {
					return fmt.Sprintf("codon %s: shares %.5f %.5f, one below cut-off %g: want 0, got %d", c, sa, sb, cutoff, g)
				}
			default:
				if !okMean {
					return fmt.Sprintf("codon %s: shares %.5f %.5f cut-off %g: want %.1f (+-1), got %d", c, sa, sb, cutoff, mean, g)
				}
			}
		}
	}
	return ""
}

func sameStrings(a, b []string) bool {
	if len(a) != len(b) {
		return false
	}
	x, y := append([]string(nil), a...), append([]string(nil), b...)
	sort.Strings(x)
	sort.Strings(y)
	return strings.Join(x, ",") == strings.Join(y, ",")
}

// optimizeAllAnswers runs Optimize(protein, t) under every sequence of answers
// of the (replaced) random source and returns the distinct results; panics and
// errors are returned as strings prefixed with "panic:" / "error:".
func optimizeAllAnswers(protein string, t codon.Table) (results map[string]int, draws int) {
	results = map[string]int{}
	vrand.Enabled = true
	defer func() { vrand.Enabled = false }()
	mc.Explore(mc.Options{DevBound: -1, PreemptBound: -1, MaxExecs: 100000}, func(c *mc.Ctx) bool {
		d0 := vrand.Draws
		var dna string
		var err error
		p := catch(func() { dna, err = codon.Optimize(protein, t) })
		draws = vrand.Draws - d0
		switch {
		case p != "":
			results["panic:"+p]++
		case err != nil:
			results["error:"+err.Error()]++
		default:
			results[dna]++
		}
		return true
	})
	return
}

// codonMenu: calls on the codon package for the history-independence units. Tables that are re-weighted are
// private deep copies, so the recorded GetCodonTable storage leak is not exercised here.
func codonMenu() []hcall {
	tv := func(t codon.Table) string {
		v := viewOf(t)
		return v.weights() + v.letters() + fmt.Sprint(t.StartCodons, t.StopCodons)
	}
	tr := func(dna string, id int) hcall {
		return hcall{fmt.Sprintf("Translate(%s,table %d)", dna, id), func() any {
			v, err := codon.Translate(dna, codon.GetCodonTable(id))
			return fmt.Sprint(v, err)
		}, showSprint}
	}
	mk := func(id int, s string) codon.Table { return deepCopyTable(codon.GetCodonTable(id)).OptimizeTable(s) }
	all := strings.Join(allCodons, "")
	return []hcall{
		tr("ATGAAATAG", 1), tr("TTGAAATAA", 11), tr("atgaga", 2),
		{"GetCodonTable(27) lists", func() any { t := codon.GetCodonTable(27); return fmt.Sprint(t.StartCodons, t.StopCodons) }, showSprint},
		{"OptimizeTable(copy of 11, ATGgccATG)", func() any { return mk(11, "ATGgccATG") }, func(v any) string { return tv(v.(codon.Table)) }},
		{"AddCodonTable(copies)", func() any { return codon.AddCodonTable(mk(1, all+"ATGATG"), mk(1, all+"TTTTTT")) }, func(v any) string { return tv(v.(codon.Table)) }},
		{"CompromiseCodonTable(copies,0.1)", func() any {
			t, err := codon.CompromiseCodonTable(mk(11, all+"ATGATGGGG"), mk(1, all+"CCCTTT"), 0.1)
			if err != nil {
				return codon.Table{}
			}
			return t
		}, func(v any) string { return tv(v.(codon.Table)) }},
		{"ParseCodonJSON(table 4 as JSON)", func() any {
			b, _ := json.Marshal(deepCopyTable(codon.GetCodonTable(4)))
			return codon.ParseCodonJSON(b)
		}, func(v any) string { return tv(v.(codon.Table)) }},
		{"Optimize(MKF*,copy of 1) translated back", func() any {
			var out string
			once(func(c *mc.Ctx) {
				vrand.Enabled = true
				t := deepCopyTable(codon.GetCodonTable(1))
				d, err := codon.Optimize("MKF*", t)
				vrand.Enabled = false
				// what is observed does not depend on which codons were drawn (an implementation may draw from a source
				// of its own): the protein the gene translates back to, its length, and the error
				back, _ := codon.Translate(d, t)
				out = fmt.Sprint(back, len(d), err)
			})
			return out
		}, showSprint},
	}
}
