//go:build c08

package props

import (
	"encoding/json"
	"fmt"
	"sort"
	"strings"
	"unsafe"

	"github.com/TimothyStiles/poly/transform/codon"

	"verif/mc"
	"verif/sched"
)

// ---------------------------------------------------------------------------
// Search 1: counting.

func c8counting(tier string) []mc.Unit {
	var us []mc.Unit
	maxn := tier2(tier, 6, 8)
	subMax := tier2(tier, 6, 7)
	for _, id := range []int{1, 2, 11} {
		for n := 0; n <= maxn; n++ {
			id, n := id, n
			us = append(us, mc.Unit{Name: fmt.Sprintf("counting/table=%d/n=%d", id, n), Serial: true, Weight: int(pow(4, n)/50) + 1, Run: func(r *mc.Recorder) {
				base := deepCopyTable(codon.GetCodonTable(id))
				before := viewOf(base)
				var cnt, nt int64
				one := func(s string) {
					t := deepCopyTable(base)
					var res codon.Table
					if p := catch(func() { res = t.OptimizeTable(s) }); p != "" {
						r.Failf("no-panic", fmt.Sprintf("table %d %s", id, q(s)), nil, "weights", "panic: "+p)
						return
					}
					cnt++
					want := inFrameCounts(s)
					got := viewOf(res)
					if got.letters() != before.letters() {
						r.Failf("assignment-untouched", fmt.Sprintf("table %d %s", id, q(s)), nil, before.letters(), got.letters())
					}
					for _, c := range allCodons {
						if got.w[c] != want[c] {
							r.Failf("counts", fmt.Sprintf("table %d %s", id, q(s)), nil, fmt.Sprintf("%s=%d", c, want[c]), fmt.Sprintf("%s=%d", c, got.w[c]))
							break
						}
					}
					if len(s) >= 3 {
						nt++
					}
				}
				f := func(b []byte) {
					s := string(b)
					one(s)
					if n <= subMax && n > 0 {
						// one non-ACGT letter at every position (frame must be kept after it)
						for pos := 0; pos < n; pos++ {
							for _, x := range []byte{'N', 'U', '-', 'n'} {
								bs := append([]byte(nil), b...)
								bs[pos] = x
								one(string(bs))
							}
						}
					}
					if n <= 4 && n > 0 {
						for m := 1; m < 1<<n; m++ {
							bs := append([]byte(nil), b...)
							for i := 0; i < n; i++ {
								if m&(1<<i) != 0 {
									bs[i] += 32
								}
							}
							one(string(bs))
						}
					}
				}
				if n == 0 {
					f(nil)
				} else {
					enumStrings("ACGT", n, f)
				}
				r.Eval(cnt)
				r.AddStates(cnt)
				r.AddTransitions(cnt)
				r.AddNontrivial(nt)
				if n == 6 && id == 1 {
					r.Sample(`OptimizeTable("ATGatg") on a private copy of table 1: ATG=2, every other codon 0, letters unchanged`)
				}
				r.Bound("counting", fmt.Sprintf("all ACGT strings of length 0..%d, all case masks and one non-ACGT letter at every position for length<=4, tables 1, 2, 11", maxn))
			}})
		}
	}
	// every length 0..L (L = 12 300; thorough 40 000): one pseudo-random mixed-case sequence per length (a block size,
	// a chunk or a buffer of any size below L is crossed at every remainder)
	maxLen := tier2(tier, 12300, 40000)
	for part := 0; part < 8; part++ {
		part := part
		us = append(us, mc.Unit{Name: fmt.Sprintf("counting/every-length/part=%d", part), Serial: true, Weight: maxLen / 80, Run: func(r *mc.Recorder) {
			base := deepCopyTable(codon.GetCodonTable(11))
			full := lcgString("ACGTacgtACGTN", maxLen, 77)
			var cnt int64
			for n := part; n <= maxLen; n += 8 {
				s := full[maxLen-n:]
				t := deepCopyTable(base)
				var res codon.Table
				if p := catch(func() { res = t.OptimizeTable(s) }); p != "" {
					r.Failf("no-panic", fmt.Sprintf("table 11, pseudo-random sequence of %d letters", n), nil, "weights", "panic: "+p)
					continue
				}
				cnt++
				want := inFrameCounts(s)
				got := viewOf(res)
				for _, c := range allCodons {
					if got.w[c] != want[c] {
						r.Failf("counts", fmt.Sprintf("table 11, pseudo-random sequence of %d letters", n), []string{"every-length"}, fmt.Sprintf("%s=%d", c, want[c]), fmt.Sprintf("%s=%d", c, got.w[c]))
						break
					}
				}
				if r.Enough() {
					break
				}
			}
			r.Eval(cnt)
			r.AddStates(cnt)
			r.AddTransitions(cnt)
			r.AddNontrivial(cnt)
			r.Bound("counting/every-length", fmt.Sprintf("every sequence length 0..%d", maxLen))
		}})
	}
	// two consecutive re-weightings with sequences that agree in length, head and tail and differ in the middle (and
	// the like): what one call computed must not be taken for the other's
	us = append(us, mc.Unit{Name: "counting/near-collisions", Serial: true, Weight: 30, Run: func(r *mc.Recorder) {
		var cnt int64
		for _, L := range []int{6, 30, 66, 99, 129, 300, 3000, 70002} {
			s1 := lcgString("ACGT", L, 5)
			mid := L / 2
			mid -= mid % 3
			alt := map[byte]byte{'A': 'C', 'C': 'G', 'G': 'T', 'T': 'A'}
			b := []byte(s1)
			b[mid] = alt[b[mid]]
			s2 := string(b)
			variants := [][2]string{{s1, s2}, {s2, s1}, {s1, strings.ToLower(s2)}, {s1, s1[3:] + s1[:3]}, {s1, s1[:L-3]}, {s1, "ATG" + s1[3:]}, {s1, s1[:L-3] + "TAA"}}
			for vi, v := range variants {
				for _, ids := range [][2]int{{1, 1}, {2, 3}, {11, 1}} {
					ta, tb := deepCopyTable(codon.GetCodonTable(ids[0])), deepCopyTable(codon.GetCodonTable(ids[1]))
					var ra, rb codon.Table
					if p := catch(func() { ra = ta.OptimizeTable(v[0]); rb = tb.OptimizeTable(v[1]) }); p != "" {
						r.Failf("no-panic", fmt.Sprintf("near-collision pair %d of length %d", vi, L), nil, "weights", "panic: "+p)
						continue
					}
					cnt += 2
					for k, res := range []codon.Table{ra, rb} {
						want := inFrameCounts(v[k])
						got := viewOf(res)
						for _, c := range allCodons {
							if got.w[c] != want[c] {
								r.Failf("counts", fmt.Sprintf("tables %d then %d re-weighted with two sequences of %d letters that differ only %s: call %d", ids[0], ids[1], L, []string{"in one middle letter", "in one middle letter (other order)", "in case and one letter", "by rotation", "by the last codon", "in the first codon", "in the last codon"}[vi], k+1), []string{"near-collision"}, fmt.Sprintf("%s=%d", c, want[c]), fmt.Sprintf("%s=%d", c, got.w[c]))
								break
							}
						}
					}
				}
			}
		}
		r.Eval(cnt)
		r.AddStates(cnt)
		r.AddTransitions(cnt)
		r.AddNontrivial(cnt)
		r.Bound("counting/near-collisions", "pairs of sequences of 8 lengths agreeing in length, head and tail (7 kinds of small difference) x 3 table pairs, consecutive calls")
	}})
	// long coding sequences at lengths around powers of two and decimal round numbers (an enumerated family)
	for _, n := range []int{4095, 4096, 4097, 16383, 16384, 16385, 16386, 49153, 65537, tier2(tier, 70001, 100000)} {
		n := n
		us = append(us, mc.Unit{Name: fmt.Sprintf("counting/long/n=%d", n), Serial: true, Weight: n/200 + 1, Run: func(r *mc.Recorder) {
			base := deepCopyTable(codon.GetCodonTable(11))
			var cnt int64
			for _, fam := range []string{"ATGgcc", "lcg"} {
				b := make([]byte, n)
				x := uint32(4242)
				for i := range b {
					if fam == "lcg" {
						x = x*1664525 + 1013904223
						b[i] = "ACGTacgtN"[(x>>24)%9]
					} else {
						b[i] = fam[i%len(fam)]
					}
				}
				s := string(b)
				t := deepCopyTable(base)
				var res codon.Table
				if p := catch(func() { res = t.OptimizeTable(s) }); p != "" {
					r.Failf("no-panic", fmt.Sprintf("table 11, %s sequence of %d letters", fam, n), nil, "weights", "panic: "+p)
					continue
				}
				cnt++
				want := inFrameCounts(s)
				got := viewOf(res)
				for _, c := range allCodons {
					if got.w[c] != want[c] {
						r.Failf("counts", fmt.Sprintf("table 11, %s sequence of %d letters", fam, n), nil, fmt.Sprintf("%s=%d", c, want[c]), fmt.Sprintf("%s=%d", c, got.w[c]))
						break
					}
				}
			}
			r.Eval(cnt)
			r.AddStates(cnt)
			r.AddTransitions(cnt)
			r.AddNontrivial(cnt)
		}})
	}
	return us
}

// ---------------------------------------------------------------------------
// Search 2: histories (explicit-state breadth-first search on the real package).

type c8op struct {
	kind    int // 0 get, 1 reweight, 2 add, 3 compromise, 4 json
	a, b, s int
}

var c8ids = []int{1, 11}
var c8seqs = func() []string {
	all := strings.Join(allCodons, "")
	return []string{"ATGATG", "atgAAAaaa", "TTTTTGA", "ATGNNNATG", all + "ATGATG"}
}()

func (o c8op) String() string {
	switch o.kind {
	case 0:
		return fmt.Sprintf("get(%d)", c8ids[o.a])
	case 1:
		s := c8seqs[o.s]
		if len(s) > 12 {
			s = "ALL64+ATGATG"
		}
		return fmt.Sprintf("reweight(h%d,%s)", o.a, s)
	case 2:
		return fmt.Sprintf("add(h%d,h%d)", o.a, o.b)
	case 3:
		return fmt.Sprintf("compromise(h%d,h%d,0.1)", o.a, o.b)
	}
	return fmt.Sprintf("json(h%d)", o.a)
}

type c8model struct {
	lineage  int
	id       int // table id for handles that come from a get (directly or by re-weighting one)
	fromGet  bool
	known    bool
	expected tableView
}

type c8state struct {
	handles []codon.Table
	model   []c8model
	nextLin int
	// ids whose default storage was re-weighted through a handle obtained from get (the recorded leak)
	reweighted map[int]bool
}

func pristineView(id int) tableView {
	v := tableView{w: map[string]int{}, letter: map[string]string{}}
	for c, aa := range ncbiTable(id) {
		v.w[c] = 1
		v.letter[c] = string(aa)
	}
	return v
}

func allPositive(v tableView) bool {
	for _, cods := range v.synonyms() {
		t := 0
		for _, c := range cods {
			t += v.w[c]
		}
		if t <= 0 {
			return false
		}
	}
	return len(v.w) == 64
}

func viewEq(a, b tableView) bool { return a.weights() == b.weights() && a.letters() == b.letters() }

// c8apply applies one operation to the state. When check is true the step is
// judged; failures are appended.
func c8apply(st *c8state, o c8op, check bool, hist string, r *mc.Recorder) (ok bool) {
	ok = true
	fail := func(clause string, tags []string, exp, got string) {
		ok = false
		if check {
			r.Fail(mc.Failure{Clause: clause, Case: hist, Tags: append([]string{"history"}, tags...), Expected: exp, Got: got})
		}
	}
	if st.reweighted == nil {
		st.reweighted = map[int]bool{}
	}
	var res codon.Table
	var resModel c8model
	var argA, argB tableView
	if o.kind != 0 {
		argA = viewOf(st.handles[o.a])
	}
	if o.kind == 2 || o.kind == 3 {
		argB = viewOf(st.handles[o.b])
	}
	var perr string
	switch o.kind {
	case 0:
		perr = catch(func() { res = codon.GetCodonTable(c8ids[o.a]) })
		resModel = c8model{lineage: st.nextLin, id: c8ids[o.a], fromGet: true, known: true, expected: pristineView(c8ids[o.a])}
		st.nextLin++
	case 1:
		perr = catch(func() { res = st.handles[o.a].OptimizeTable(c8seqs[o.s]) })
		exp := tableView{w: map[string]int{}, letter: argA.letter}
		cn := inFrameCounts(c8seqs[o.s])
		for c := range argA.w {
			exp.w[c] = cn[c]
		}
		lin := st.model[o.a].lineage
		if st.model[o.a].fromGet {
			st.reweighted[st.model[o.a].id] = true
		}
		// the API documents that re-weighting mutates its receiver: what the receiver and
		// the other handles of its lineage hold afterwards is not specified
		for i := range st.model {
			if st.model[i].lineage == lin {
				st.model[i].known = false
			}
		}
		resModel = c8model{lineage: lin, id: st.model[o.a].id, fromGet: st.model[o.a].fromGet, known: true, expected: exp}
	case 2:
		perr = catch(func() { res = codon.AddCodonTable(st.handles[o.a], st.handles[o.b]) })
		exp := tableView{w: map[string]int{}, letter: argA.letter}
		for c := range argA.w {
			exp.w[c] = argA.w[c] + argB.w[c]
		}
		resModel = c8model{lineage: st.nextLin, known: true, expected: exp}
		st.nextLin++
	case 3:
		var err error
		perr = catch(func() { res, err = codon.CompromiseCodonTable(st.handles[o.a], st.handles[o.b], 0.1) })
		if perr == "" && err != nil {
			perr = "error: " + err.Error()
		}
		resModel = c8model{lineage: st.nextLin, known: false}
		st.nextLin++
	case 4:
		perr = catch(func() {
			b, err := json.Marshal(st.handles[o.a])
			if err != nil {
				panic(err)
			}
			res = codon.ParseCodonJSON(b)
		})
		resModel = c8model{lineage: st.nextLin, known: true, expected: argA}
		st.nextLin++
	}
	if perr != "" {
		fail("no-panic", nil, "a table", perr)
		return
	}
	got := viewOf(res)
	// result clause, against the arguments as observed immediately before the call
	switch o.kind {
	case 0:
		// judged below by the fresh-default clause
	case 1, 2, 4:
		if !viewEq(got, resModel.expected) {
			fail([]string{"", "result-reweight", "result-add", "", "result-json"}[o.kind], nil, resModel.expected.weights(), got.diff(resModel.expected))
		}
	case 3:
		if msg := compromiseCheck(argA, argB, got, 0.1); msg != "" {
			fail("result-compromise", nil, "mean of shares / cut-off rule", msg)
		}
		resModel.expected, resModel.known = got, true
	}
	if o.kind == 0 {
		if !viewEq(got, resModel.expected) {
			fail("fresh-default-pristine", leakTags(st, c8ids[o.a]), "NCBI assignments, every weight 1", got.diff(resModel.expected))
			// carry on with what was observed so that the same leak is not reported again as isolation
			resModel.expected = got
		}
	} else {
		resModel.expected = got
	}
	st.handles = append(st.handles, res)
	st.model = append(st.model, resModel)
	// isolation: every handle whose value the model still knows must be unchanged
	for i := 0; i < len(st.handles)-1; i++ {
		if !st.model[i].known {
			continue
		}
		if v := viewOf(st.handles[i]); !viewEq(v, st.model[i].expected) {
			var tg []string
			if st.model[i].fromGet {
				tg = leakTags(st, st.model[i].id)
			}
			fail("isolation-other-table-changed", tg, fmt.Sprintf("h%d unchanged", i), fmt.Sprintf("h%d: %s", i, v.diff(st.model[i].expected)))
			st.model[i].expected = v // report each change once
		}
	}
	// a freshly requested default is pristine
	for _, id := range c8ids {
		var f codon.Table
		if p := catch(func() { f = codon.GetCodonTable(id) }); p != "" {
			fail("no-panic", nil, "a table", p)
			continue
		}
		if v := viewOf(f); !viewEq(v, pristineView(id)) {
			fail("fresh-default-pristine", leakTags(st, id), fmt.Sprintf("GetCodonTable(%d): NCBI assignments, every weight 1", id), v.diff(pristineView(id)))
		}
		if !sameStrings(f.StartCodons, strings.Fields(ncbiCodes[id].starts)) || !sameStrings(f.StopCodons, strings.Fields(ncbiCodes[id].stops)) {
			fail("fresh-default-start-stop", nil, fmt.Sprintf("GetCodonTable(%d): starts %s stops %s", id, ncbiCodes[id].starts, ncbiCodes[id].stops), fmt.Sprint(f.StartCodons, f.StopCodons))
		}
	}
	return
}

// leakTags: the failing table is (storage shared with) the default of an id that was re-weighted through a
// handle obtained from GetCodonTable — the signature of the recorded storage leak, and of nothing else.
func leakTags(st *c8state, id int) []string {
	if st.reweighted[id] {
		return []string{"default-storage-reweighted-through-get-handle"}
	}
	return nil
}

func c8replay(hist []c8op, r *mc.Recorder, checkLast bool) (*c8state, bool) {
	codon.VerifResetGlobals()
	st := &c8state{}
	ok := true
	for i, o := range hist {
		last := i == len(hist)-1
		name := ""
		if last && checkLast {
			var p []string
			for _, x := range hist {
				p = append(p, x.String())
			}
			name = strings.Join(p, "; ")
		}
		ok = c8apply(st, o, last && checkLast, name, r)
	}
	return st, ok
}

// c8key: canonical form of a state: per handle its value, its aliasing class
// (which handles share storage, and whether with a package default) and what
// the model knows about it; handles sorted so that their order does not matter.
func c8key(st *c8state) string {
	ptr := func(t codon.Table) uintptr {
		if len(t.AminoAcids) == 0 || len(t.AminoAcids[0].Codons) == 0 {
			return 0
		}
		// AminoAcids order differs between tables built separately; use the smallest codon slice address
		var m uintptr
		for _, aa := range t.AminoAcids {
			if len(aa.Codons) > 0 {
				p := uintptr(unsafe.Pointer(&aa.Codons[0]))
				if m == 0 || p < m {
					m = p
				}
			}
		}
		return m
	}
	defPtr := map[uintptr]int{}
	var defs []string
	for _, id := range c8ids {
		f := codon.GetCodonTable(id)
		defPtr[ptr(f)] = id
		defs = append(defs, viewOf(f).weights())
	}
	type ent struct {
		s   string
		p   uintptr
		lin int
	}
	var es []ent
	for i, h := range st.handles {
		v := viewOf(h)
		m := st.model[i]
		exp := ""
		if m.known {
			exp = m.expected.weights()
		}
		es = append(es, ent{fmt.Sprintf("%s|%s|def%d|k%v|%s|g%v", v.weights(), v.letters(), defPtr[ptr(h)], m.known, exp, m.fromGet), ptr(h), m.lineage})
	}
	sort.SliceStable(es, func(i, j int) bool { return es[i].s < es[j].s })
	cls, lin := map[uintptr]int{}, map[int]int{}
	var b strings.Builder
	for _, e := range es {
		if _, ok := cls[e.p]; !ok {
			cls[e.p] = len(cls)
		}
		if _, ok := lin[e.lin]; !ok {
			lin[e.lin] = len(lin)
		}
		fmt.Fprintf(&b, "%s|c%d|l%d;", e.s, cls[e.p], lin[e.lin])
	}
	b.WriteString(strings.Join(defs, "#"))
	fmt.Fprintf(&b, "|leak%v", st.reweighted)
	return b.String()
}

func c8successors(st *c8state) []c8op {
	var ops []c8op
	for i := range c8ids {
		ops = append(ops, c8op{kind: 0, a: i})
	}
	n := len(st.handles)
	for h := 0; h < n; h++ {
		for s := range c8seqs {
			ops = append(ops, c8op{kind: 1, a: h, s: s})
		}
		ops = append(ops, c8op{kind: 4, a: h})
	}
	for a := 0; a < n; a++ {
		for b := 0; b < n; b++ {
			ops = append(ops, c8op{kind: 2, a: a, b: b})
			// compromise is defined only when every amino acid has a positive total in both tables
			if allPositive(viewOf(st.handles[a])) && allPositive(viewOf(st.handles[b])) {
				ops = append(ops, c8op{kind: 3, a: a, b: b})
			}
		}
	}
	return ops
}

func c8histString(h []c8op) string {
	var p []string
	for _, x := range h {
		p = append(p, x.String())
	}
	return strings.Join(p, "; ")
}

// c8histories: breadth-first search, split into one unit per history prefix of length 2 so that the
// subtrees are explored by different worker processes (each with its own visited set).
func c8histories(tier string) []mc.Unit {
	depth := tier2(tier, 5, 6)
	var roots [][]c8op
	st0, _ := c8replay(nil, nil, false)
	for _, o1 := range c8successors(st0) {
		st1, _ := c8replay([]c8op{o1}, nil, false)
		for _, o2 := range c8successors(st1) {
			roots = append(roots, []c8op{o1, o2})
		}
	}
	var us []mc.Unit
	for ri, root := range roots {
		root := root
		us = append(us, mc.Unit{Name: fmt.Sprintf("histories/root=%d:%s", ri, strings.ReplaceAll(c8histString(root), " ", "")), Serial: true, Weight: 800, Run: func(r *mc.Recorder) {
			r.MaxFailures = 400
			seen := map[uint64]bool{}
			// the root's own steps are judged here too
			c8replay(root[:1], r, true)
			rs, _ := c8replay(root, r, true)
			seen[mc.H(c8key(rs))] = true
			frontier := [][]c8op{root}
			var states, trans int64 = 1, 2
			completed := len(root)
			sampled := false
			for d := len(root) + 1; d <= depth && len(frontier) > 0; d++ {
				var next [][]c8op
				stopped := false
				for _, hist := range frontier {
					if r.TimeUp() {
						r.Cap(fmt.Sprintf("history search below %q stopped by the time budget inside depth %d", c8histString(root), d))
						stopped = true
						break
					}
					st, _ := c8replay(hist, r, false)
					for _, o := range c8successors(st) {
						nh := append(append([]c8op{}, hist...), o)
						ns, _ := c8replay(nh, r, true)
						trans++
						k := mc.H(c8key(ns))
						if !seen[k] {
							seen[k] = true
							states++
							next = append(next, nh)
							if !sampled && d == 4 {
								r.Sample("history: " + c8histString(nh) + " (value-semantics model compared after every step: result, every other live table, fresh defaults)")
								sampled = true
							}
						}
					}
				}
				if stopped {
					break
				}
				completed = d
				frontier = next
			}
			r.Eval(trans)
			r.AddStates(states)
			r.AddTransitions(trans)
			r.AddNontrivial(trans)
			r.Bound("histories", fmt.Sprintf("operation sequences over get(1|11), reweight(h, 5 sequences), add, compromise(0.1), json; breadth-first below each of the %d prefixes of length 2, canonical state hashing per subtree; depth %d", len(roots), depth))
			if completed < depth && len(frontier) > 0 {
				r.Bound("histories/partial/"+fmt.Sprint(ri), fmt.Sprintf("depth %d completed below %s", completed, c8histString(root)))
			}
		}})
	}
	return us
}

// ---------------------------------------------------------------------------
// Search 3: schedules at statement granularity (codon package instrumented with
// a yield before every statement).

func c8schedules(tier string) []mc.Unit {
	type scen struct {
		name  string
		ids   []int
		seqs  []string
		bound int
	}
	scens := []scen{{"two-tasks", []int{1, 11}, []string{"ATGAAA", "TTTATG"}, tier2(tier, 1, 2)}}
	if tier == "thorough" {
		scens = append(scens, scen{"three-tasks", []int{1, 2, 11}, []string{"ATG", "TTT", "GGG"}, 2})
	} else {
		scens = append(scens, scen{"three-tasks", []int{1, 2, 11}, []string{"ATG", "TTT", "GGG"}, 1})
	}
	var us []mc.Unit
	for _, sc := range scens {
		sc := sc
		us = append(us, mc.Unit{Name: "schedules/" + sc.name, Serial: true, Weight: 2000, Run: func(r *mc.Recorder) {
			outcomes := map[string]bool{}
			maxSteps := 0
			st := mc.Explore(mc.Options{DevBound: 0, PreemptBound: sc.bound, Deadline: r.TimeUp}, func(c *mc.Ctx) bool {
				codon.VerifResetGlobals()
				results := make([]codon.Table, len(sc.ids))
				letters := make([]string, len(sc.ids))
				var post []tableView
				out := sched.Run(c, sched.Options{Horizon: 200000, KeyRunning: true}, func() {
					// before the concurrent phase: one sequential re-weighting with every sequence, the first task's
					// sequence last (state a call may have left behind is then in place when the tasks start)
					for j := len(sc.seqs) - 1; j >= 0; j-- {
						deepCopyTable(codon.GetCodonTable(sc.ids[j])).OptimizeTable(sc.seqs[j])
					}
					var wg sched.WaitGroup
					for i := range sc.ids {
						i := i
						wg.Add(1)
						sched.Go(func() {
							defer wg.Done()
							t := codon.GetCodonTable(sc.ids[i])
							letters[i] = viewOf(t).letters()
							results[i] = t.OptimizeTable(sc.seqs[i])
						})
					}
					wg.Wait()
					// after the concurrent phase: re-weight again, sequentially, with every sequence
					for i := range sc.ids {
						for j := range sc.seqs {
							post = append(post, viewOf(deepCopyTable(codon.GetCodonTable(sc.ids[i])).OptimizeTable(sc.seqs[j])))
						}
					}
				})
				if out.Steps > maxSteps {
					maxSteps = out.Steps
				}
				var obs []string
				cas := fmt.Sprintf("%s schedule=%v", sc.name, c.Choices())
				if out.String() != "ok" {
					r.Fail(mc.Failure{Clause: "concurrent-no-panic", Case: cas, Tags: []string{"schedule"}, Choices: c.Choices(), Expected: "ok", Got: out.String()})
					return !r.Enough() && !out.Stuck
				}
				good := true
				for i := range sc.ids {
					got := viewOf(results[i])
					want := inFrameCounts(sc.seqs[i])
					obs = append(obs, got.weights())
					for _, cd := range allCodons {
						if got.w[cd] != want[cd] {
							good = false
							r.Fail(mc.Failure{Clause: "concurrent-counts", Case: cas, Tags: []string{"schedule"}, Choices: c.Choices(),
								Expected: fmt.Sprintf("task %d (table %d, %s): %s=%d", i, sc.ids[i], sc.seqs[i], cd, want[cd]), Got: fmt.Sprintf("%s=%d", cd, got.w[cd])})
							break
						}
					}
					if got.letters() != letters[i] {
						good = false
						r.Fail(mc.Failure{Clause: "concurrent-assignment-untouched", Case: cas, Tags: []string{"schedule"}, Choices: c.Choices(), Expected: letters[i], Got: got.letters()})
					}
				}
				for k, pv := range post {
					j := k % len(sc.seqs)
					want := inFrameCounts(sc.seqs[j])
					for _, cd := range allCodons {
						if pv.w[cd] != want[cd] {
							good = false
							r.Fail(mc.Failure{Clause: "after-concurrent-counts", Case: cas, Tags: []string{"schedule"}, Choices: c.Choices(),
								Expected: fmt.Sprintf("sequential re-weighting of table %d with %s after the concurrent phase: %s=%d", sc.ids[k/len(sc.seqs)], sc.seqs[j], cd, want[cd]), Got: fmt.Sprintf("%s=%d", cd, pv.w[cd])})
							break
						}
					}
				}
				o := strings.Join(obs, "#")
				outcomes[o] = true
				r.Outcome(sc.name + o)
				return good || !r.Enough()
			})
			r.AddExplore(st, "schedules/"+sc.name)
			r.AddStates(int64(st.Execs))
			r.AddNontrivial(int64(st.Execs))
			r.Bound("schedules/"+sc.name, fmt.Sprintf("%d tasks re-weighting tables %v concurrently, a scheduling point before every statement of the codon package; all schedules with at most %d preemptions (no state pruning): %d executions, longest %d steps, %d distinct outcomes (1 expected on correct code)", len(sc.ids), sc.ids, sc.bound, st.Execs, maxSteps, len(outcomes)))
			r.Sample(fmt.Sprintf("tasks: GetCodonTable(%v).OptimizeTable(%v) interleaved at statement granularity", sc.ids, sc.seqs))
		}})
	}
	return us
}

func c08units(tier string) []mc.Unit {
	var us []mc.Unit
	us = append(us, historyUnit("api-histories", codonMenu()[:8], 3))
	us = append(us, c8counting(tier)...)
	us = append(us, c8histories(tier)...)
	us = append(us, c8schedules(tier)...)
	return us
}

func init() {
	mc.Register(&mc.Harness{ID: "C08", Units: c08units,
		Rule:   "counting: distinct (table, sequence) inputs enumerated completely; histories: states of the real package reached by operation sequences, deduplicated by a canonical key (values + aliasing classes + model knowledge), every transition judged; schedules: every schedule within the preemption bound at statement granularity; non-trivial = sequences with at least one codon / every transition / every schedule",
		Assume: []string{"re-weighting is documented to mutate its receiver: handles of the receiver's own lineage are not compared afterwards", "compromise is applied only to tables in which every amino acid has a positive total", "sequentially consistent interleaving at statement granularity; weak-memory effects are not modelled"}})
}
