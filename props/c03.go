//go:build c03

package props

import (
	"fmt"
	"os"
	"path/filepath"
	"regexp"
	"strconv"
	"strings"

	"github.com/TimothyStiles/poly"
	"github.com/TimothyStiles/poly/io/genbank"

	"verif/mc"
	"verif/vmap"
)

func c3normLoc(l poly.Location) poly.Location {
	if len(l.SubLocations) > 0 {
		// the text form cannot carry partial flags on internal nodes
		l.FivePrimePartial, l.ThreePrimePartial = false, false
		subs := make([]poly.Location, len(l.SubLocations))
		for i, s := range l.SubLocations {
			subs[i] = c3normLoc(s)
		}
		l.SubLocations = subs
	} else {
		l.SubLocations = nil
	}
	return l
}

func c3locString(l poly.Location) string { return fmt.Sprintf("%+v", c3normLoc(l)) }

func c3refString(r poly.Reference) string {
	return fmt.Sprintf("%s|%s|%s|%s|%s|%s|%s", r.Index, r.Range, r.Authors, r.Title, r.Journal, r.PubMed, r.Remark)
}

func c3otherString(m map[string]string) string { return qualMapString(m) }

// c3same: the stated fields of two records are equal.
func c3same(a, b poly.Sequence, fail func(clause, exp, got string)) {
	eq := func(clause, what, x, y string) {
		if x != y {
			fail(clause, what+" = "+q(x), q(y))
		}
	}
	eq("roundtrip-sequence", "sequence", a.Sequence, b.Sequence)
	la, lb := a.Meta.Locus, b.Meta.Locus
	eq("roundtrip-locus", "locus", fmt.Sprintf("%s|%s|%s|%s|%s|%v|%v", la.Name, la.SequenceLength, la.MoleculeType, la.GenbankDivision, la.ModificationDate, la.Circular, la.Linear),
		fmt.Sprintf("%s|%s|%s|%s|%s|%v|%v", lb.Name, lb.SequenceLength, lb.MoleculeType, lb.GenbankDivision, lb.ModificationDate, lb.Circular, lb.Linear))
	eq("roundtrip-metadata", "DEFINITION", a.Meta.Definition, b.Meta.Definition)
	eq("roundtrip-metadata", "ACCESSION", a.Meta.Accession, b.Meta.Accession)
	eq("roundtrip-metadata", "VERSION", a.Meta.Version, b.Meta.Version)
	eq("roundtrip-metadata", "KEYWORDS", a.Meta.Keywords, b.Meta.Keywords)
	eq("roundtrip-metadata", "SOURCE", a.Meta.Source, b.Meta.Source)
	eq("roundtrip-metadata", "ORGANISM", a.Meta.Organism, b.Meta.Organism)
	eq("roundtrip-other-keywords", "other keyword blocks", c3otherString(a.Meta.Other), c3otherString(b.Meta.Other))
	if len(a.Meta.References) != len(b.Meta.References) {
		fail("roundtrip-references", fmt.Sprint(len(a.Meta.References), " references"), fmt.Sprint(len(b.Meta.References)))
	} else {
		for i := range a.Meta.References {
			eq("roundtrip-references", fmt.Sprintf("reference %d", i+1), c3refString(a.Meta.References[i]), c3refString(b.Meta.References[i]))
		}
	}
	if len(a.Features) != len(b.Features) {
		fail("roundtrip-features", fmt.Sprint(len(a.Features), " features"), fmt.Sprint(len(b.Features)))
		return
	}
	for i := range a.Features {
		fa, fb := a.Features[i], b.Features[i]
		eq("roundtrip-features", fmt.Sprintf("feature %d key", i), fa.Type, fb.Type)
		eq("roundtrip-features", fmt.Sprintf("feature %d location", i), c3locString(fa.SequenceLocation), c3locString(fb.SequenceLocation))
		eq("roundtrip-features", fmt.Sprintf("feature %d qualifiers", i), qualMapString(fa.Attributes), qualMapString(fb.Attributes))
		if fa.GbkLocationString != "" {
			eq("roundtrip-features", fmt.Sprintf("feature %d location text", i), fa.GbkLocationString, fb.GbkLocationString)
		}
	}
}

var c3badPartial = regexp.MustCompile(`\d>`)

// c3layout: an independent column-based reader recovers the same record.
func c3layout(x poly.Sequence, text string, fail func(clause, exp, got string), skip func()) {
	if !strings.HasSuffix(strings.TrimRight(text, "\n"), "\n//") && strings.TrimRight(text, "\n") != "//" {
		fail("layout-terminator", "text ends with a // line", q(text[max(0, len(text)-20):]))
	}
	g := gbReadRecord(text)
	for _, p := range g.problems {
		fail("layout-columns", "lines in flat-file columns", p)
	}
	eq := func(clause, what, want, have string) {
		if want != have {
			fail(clause, what+" = "+q(want), q(have))
		}
	}
	eq("layout-origin", "sequence read from the numbered ORIGIN blocks", x.Sequence, g.seq)
	// ORIGIN numbering: 1, 61, 121, ... in a 9-column field, blocks of 10
	l := x.Meta.Locus
	topo := ""
	if l.Circular {
		topo = "circular"
	} else if l.Linear {
		topo = "linear"
	}
	eq("layout-locus", "LOCUS tokens", fmt.Sprintf("%s %s bp %s %s %s %s", l.Name, l.SequenceLength, l.MoleculeType, topo, l.GenbankDivision, l.ModificationDate),
		fmt.Sprintf("%s %s %s %s %s %s %s", g.locusName, g.length, g.unit, g.molType, g.topology, g.division, g.date))
	eq("layout-keyword-lines", "DEFINITION", x.Meta.Definition, g.block("DEFINITION"))
	eq("layout-keyword-lines", "ACCESSION", x.Meta.Accession, g.block("ACCESSION"))
	eq("layout-keyword-lines", "VERSION", x.Meta.Version, g.block("VERSION"))
	eq("layout-keyword-lines", "KEYWORDS", x.Meta.Keywords, g.block("KEYWORDS"))
	eq("layout-keyword-lines", "SOURCE", x.Meta.Source, g.block("SOURCE"))
	eq("layout-keyword-lines", "ORGANISM", x.Meta.Organism, g.block("ORGANISM"))
	for k, v := range x.Meta.Other {
		eq("layout-keyword-lines", k, v, g.block(k))
	}
	if len(g.refs) != len(x.Meta.References) {
		fail("layout-references", fmt.Sprint(len(x.Meta.References), " references"), fmt.Sprint(len(g.refs)))
	} else {
		for i, ref := range x.Meta.References {
			want := fmt.Sprintf("%s|%s|%s|%s|%s", ref.Authors, ref.Title, ref.Journal, ref.PubMed, ref.Remark)
			have := fmt.Sprintf("%s|%s|%s|%s|%s", refField(g.refs[i], "AUTHORS"), refField(g.refs[i], "TITLE"), refField(g.refs[i], "JOURNAL"), refField(g.refs[i], "PUBMED"), refField(g.refs[i], "REMARK"))
			eq("layout-references", fmt.Sprintf("reference %d", i+1), want, have)
			head := strings.Fields(refField(g.refs[i], "REFERENCE"))
			if len(head) == 0 || head[0] != strconv.Itoa(i+1) {
				fail("layout-references", fmt.Sprintf("reference %d numbered %d", i+1, i+1), refField(g.refs[i], "REFERENCE"))
			} else {
				eq("layout-references", fmt.Sprintf("reference %d range", i+1), ref.Range, strings.TrimSpace(strings.TrimPrefix(strings.TrimSpace(refField(g.refs[i], "REFERENCE")), head[0])))
			}
		}
	}
	if len(g.feats) != len(x.Features) {
		fail("layout-feature-table", fmt.Sprint(len(x.Features), " features"), fmt.Sprint(len(g.feats)))
		return
	}
	for i, f := range x.Features {
		gf := g.feats[i]
		eq("layout-feature-table", fmt.Sprintf("feature %d key", i), f.Type, gf.key)
		eq("layout-feature-table", fmt.Sprintf("feature %d qualifiers", i), qualMapString(f.Attributes), qualMapString(gf.quals))
		if f.GbkLocationString != "" {
			eq("layout-feature-table", fmt.Sprintf("feature %d location text", i), f.GbkLocationString, gf.loc)
			continue
		}
		if c3badPartial.MatchString(gf.loc) {
			skip() // the a..b> writer form is the recorded C02 finding; not judged again here
			continue
		}
		e, err := insdcParse(gf.loc)
		if err != nil {
			fail("layout-feature-table", fmt.Sprintf("feature %d location is valid INSDC text", i), gf.loc+": "+err.Error())
			continue
		}
		eq("layout-feature-table", fmt.Sprintf("feature %d location", i), c3locString(f.SequenceLocation), c3locString(e.toPoly()))
	}
}

// c3judge: one record, one execution (one order of every map iteration inside Build).
type c3memo struct {
	first    map[string]string // record key -> first Build output
	prevOut  []byte            // the slice the previous Build returned (not a copy)
	prevCopy string
	prevCas  string
}

func c3judge(r *mc.Recorder, memo *c3memo, key, cas string, tags []string, x poly.Sequence) {
	fail := func(clause, exp, got string) { r.Failf(clause, cas, tags, exp, got) }
	var out []byte
	// the record as given: what is read back is compared with this copy, so a writer that reorders or edits the
	// caller's features, references or maps in place cannot hide the change from the comparison
	given := c3copy(x)
	vmap.Enabled = true
	p := catch(func() { out = genbank.Build(x) })
	vmap.Enabled = false
	if p != "" {
		fail("no-panic", "text", "panic in Build: "+p)
		return
	}
	text := string(out)
	// text returned by an earlier Build must not change when Build is called again
	if memo.prevOut != nil && string(memo.prevOut) != memo.prevCopy {
		r.Failf("written-text-stable", memo.prevCas+" (text re-read after a later Build)", tags, q(memo.prevCopy), q(string(memo.prevOut)))
	}
	memo.prevOut, memo.prevCopy, memo.prevCas = out, text, cas
	if first, ok := memo.first[key]; ok {
		if first != text {
			fail("deterministic-bytes", "the same bytes for every iteration order of the record's maps", c3firstDiff(first, text))
		} else {
			return // identical text: everything below was already judged
		}
	} else {
		memo.first[key] = text
	}
	var back poly.Sequence
	if p := catch(func() { back = genbank.Parse(out) }); p != "" {
		fail("no-panic", "a record", "panic in Parse(Build(x)): "+p)
		return
	}
	c3same(given, back, fail)
	c3layout(given, text, fail, func() { r.Skip(1) })
}

func c3copyLoc(l poly.Location) poly.Location {
	c := l
	c.SubLocations = nil
	for _, s := range l.SubLocations {
		c.SubLocations = append(c.SubLocations, c3copyLoc(s))
	}
	return c
}

// c3copy copies everything the comparison reads: feature list, qualifier maps, locations, references, other blocks.
func c3copy(x poly.Sequence) poly.Sequence {
	c := x
	c.Features = nil
	for _, f := range x.Features {
		g := f
		g.SequenceLocation = c3copyLoc(f.SequenceLocation)
		if f.Attributes != nil {
			g.Attributes = map[string]string{}
			for k, v := range f.Attributes {
				g.Attributes[k] = v
			}
		}
		c.Features = append(c.Features, g)
	}
	c.Meta.References = append([]poly.Reference(nil), x.Meta.References...)
	if x.Meta.Other != nil {
		c.Meta.Other = map[string]string{}
		for k, v := range x.Meta.Other {
			c.Meta.Other[k] = v
		}
	}
	return c
}

func c3firstDiff(a, b string) string {
	la, lb := strings.Split(a, "\n"), strings.Split(b, "\n")
	for i := 0; i < len(la) && i < len(lb); i++ {
		if la[i] != lb[i] {
			return fmt.Sprintf("line %d: %q vs %q", i+1, la[i], lb[i])
		}
	}
	return fmt.Sprintf("%d vs %d lines", len(la), len(lb))
}

const c3lorem = "lorem ipsum dolor sit amet consectetur adipiscing elit sed do eiusmod tempor incididunt ut labore et dolore magna aliqua ut enim ad minim veniam quis nostrud exercitation ullamco laboris nisi ut aliquip ex ea commodo consequat"

func c3text(n int) string {
	s := c3lorem
	for len(s) < n {
		s += " " + c3lorem
	}
	s = s[:n]
	return strings.TrimSpace(s)
}

var c3keywords = []string{"LOCUS", "control", "DEFINITION", "of", "ACCESSION", "VERSION", "KEYWORDS", "SOURCE", "ORGANISM", "REFERENCE", "AUTHORS",
	"TITLE", "JOURNAL", "PUBMED", "REMARK", "COMMENT", "DBLINK", "region", "FEATURES", "site"}

// c3keywordText is free text of about n characters over the vocabulary above, starting at word k.
func c3keywordText(k, n int) string {
	var b []string
	for l := 0; l < n; k++ {
		w := c3keywords[k%len(c3keywords)]
		b = append(b, w)
		l += len(w) + 1
	}
	return strings.Join(b, " ")
}

// c3structured draws a programmatically assembled record.
func c3structured(c *mc.Ctx, thorough bool, tags *[]string) poly.Sequence {
	tag := func(t string) { *tags = append(*tags, t) }
	lens := []int{120, 1, 59, 60, 61}
	if thorough {
		lens = append(lens, 100000)
	}
	L := lens[c.Dev("seq-length", len(lens))]
	var s poly.Sequence
	s.Sequence = gbSeq(L, 5)
	s.Meta.Locus = poly.Locus{Name: "built1", SequenceLength: strconv.Itoa(L), MoleculeType: "DNA", GenbankDivision: "SYN", ModificationDate: "01-JAN-2000", Linear: true}
	if c.Dev("topology", 2) == 1 {
		s.Meta.Locus.Linear, s.Meta.Locus.Circular = false, true
	}
	s.Meta.Definition = "Assembled record."
	s.Meta.Accession, s.Meta.Version, s.Meta.Keywords = "XY000001", "XY000001.1", "."
	s.Meta.Source, s.Meta.Organism = "synthetic construct", "synthetic construct"
	s.Meta.Other = map[string]string{}
	switch c.Dev("metadata-length", 3) {
	case 1:
		s.Meta.Definition = c3text(100)
		tag("metadata-wraps")
	case 2:
		s.Meta.Definition = c3text(2000)
		s.Meta.Organism = "Escherichia coli " + c3text(150)
		tag("metadata-wraps")
	}
	nref := []int{1, 0, 2, 5}[c.Dev("references", 4)]
	remark := c.Dev("remark", 2) == 1
	for i := 0; i < nref; i++ {
		ref := poly.Reference{Index: strconv.Itoa(i + 1), Range: fmt.Sprintf("(bases 1 to %d)", L), Authors: "Smith,J. and Jones,K.", Title: "A title of moderate length for the reference number " + strconv.Itoa(i+1),
			Journal: "J. Verif. 1 (1), 1-2 (2000)", PubMed: strconv.Itoa(100 + i)}
		if remark {
			ref.Remark = "Erratum:[J. Verif. 2000 Feb;1(2):99]"
			tag("reference-remark")
		}
		if i == 1 {
			ref.Authors = c3text(180)
			tag("metadata-wraps")
		}
		s.Meta.References = append(s.Meta.References, ref)
	}
	nother := c.Dev("other-blocks", 4)
	for i := 0; i < nother; i++ {
		s.Meta.Other[[]string{"COMMENT", "DBLINK", "PROJECT"}[i]] = []string{"A short comment.", "BioProject: PRJNA1", c3text(120)}[i]
	}
	if nother >= 2 {
		tag("other>=2")
	}
	if nother == 3 {
		tag("metadata-wraps")
	}
	if c.Dev("metadata-words", 2) == 1 {
		// free text made of the format's own keywords: wrapped continuation lines then begin with LOCUS,
		// DEFINITION, SOURCE, REFERENCE ... and must still be read as continuation text
		s.Meta.Definition = c3keywordText(0, 260)
		s.Meta.Other["COMMENT"] = c3keywordText(5, 200)
		tag("metadata-wraps")
		tag("keywords-in-text")
	}
	nf := []int{1, 0, 2, 3}[c.Dev("features", 4)]
	// the feature table is kept in the order given, whatever the coordinates: ascending starts by default,
	// descending starts as a deviation (a writer or reader that orders the table would permute it)
	descending := c.Dev("feature-starts", 2) == 1
	if descending && nf >= 2 {
		tag("features-not-in-start-order")
	}
	for i := 0; i < nf; i++ {
		f := poly.Feature{Type: []string{"gene", "CDS", "misc_feature"}[i], Attributes: map[string]string{}}
		a := 1 + i%L
		if descending {
			a = 1 + (4*(nf-1-i))%L
		}
		b := a + (7*(i+1))%L
		if b > L {
			b = L
		}
		span := &locExpr{kind: lkSpan, i: a, j: b}
		var e *locExpr
		switch c.Dev(fmt.Sprintf("f%d.location", i), 7) {
		case 0:
			e = span
		case 1:
			e = &locExpr{kind: lkComp, subs: []*locExpr{span}}
		case 2:
			e = &locExpr{kind: lkJoin, subs: []*locExpr{span, {kind: lkSpan, i: b, j: L}}}
		case 3:
			e = &locExpr{kind: lkComp, subs: []*locExpr{{kind: lkJoin, subs: []*locExpr{span, {kind: lkSingle, i: L, j: L}}}}}
		case 4:
			e = &locExpr{kind: lkSingle, i: a, j: a}
		case 5:
			e = &locExpr{kind: lkSpan, i: a, j: b, p5: true}
		case 6:
			e = &locExpr{kind: lkJoin, subs: []*locExpr{{kind: lkComp, subs: []*locExpr{span}}, {kind: lkSpan, i: 1, j: L}, {kind: lkComp, subs: []*locExpr{{kind: lkSpan, i: L, j: L}}}}}
		}
		f.SequenceLocation = e.toPoly()
		if c.Dev(fmt.Sprintf("f%d.cached-text", i), 2) == 1 {
			f.GbkLocationString = e.text()
		}
		nq := []int{1, 0, 2, 3, 8}[c.Dev(fmt.Sprintf("f%d.qualifiers", i), 5)]
		// qualifier names are case-sensitive: "note" and "Note" are different keys
		keys := []string{"gene", "note", "Note", "product", "locus_tag", "db_xref", "function", "codon_start"}
		paths := "see /usr/share/doc /etc/poly.conf /var/lib/x=1 /a/b/c /opt/tools/bin /home/user/data /tmp/scratch /srv/www /mnt/disk1 /proc/self /dev/null /sys/class /boot/efi /root/.cache /lib64/ld /run/lock"
		vals := []string{"abcD", "a note with / and = inside", paths, "hypothetical protein", "b0001", "GeneID:944742", c3text(150), "1"}
		for k := 0; k < nq; k++ {
			f.Attributes[keys[k]] = vals[k]
		}
		if nq >= 2 {
			tag("qualifiers>=2")
		}
		s.AddFeature(&f)
	}
	return s
}

func c03units(tier string) []mc.Unit {
	thorough := tier == "thorough"
	dev := tier2(tier, 2, 3)
	var us []mc.Unit
	// oracle self-check: the independent reader recovers what the independent writer laid out
	us = append(us, mc.Unit{Name: "selfcheck", Weight: 20, Run: func(r *mc.Recorder) {
		mc.Explore(mc.Options{DevBound: 1, PreemptBound: -1}, func(c *mc.Ctx) bool {
			var tags []string
			rec := gbGenRecord(c, gbGenOpts{maxFeatures: 1, lengths: []int{120, 1, 61}}, 0, &tags)
			g := gbReadRecord(gbWrite(rec))
			if len(g.problems) > 0 || g.seq != rec.seq || g.block("DEFINITION") != gbJoined(rec.definition) || len(g.feats) != len(rec.feats) || len(g.refs) != len(rec.refs) {
				panic(fmt.Sprintf("oracle self-check: reader does not recover the writer's record: %v %v", g.problems, c.Describe()))
			}
			for i, f := range rec.feats {
				if g.feats[i].loc != f.loc || len(g.feats[i].quals) != len(f.quals) {
					panic("oracle self-check: feature " + f.loc + " read as " + g.feats[i].loc)
				}
				for _, qu := range f.quals {
					if g.feats[i].quals[qu.key] != qu.val {
						panic("oracle self-check: qualifier " + qu.key)
					}
				}
			}
			return true
		})
		r.Bound("oracle-selfcheck", "the column-based reader recovers every record the independent writer lays out (1 deviation, feature lists <= 1)")
	}})
	// (ii) structured records, split by number of deviations root... one unit per features choice
	for fi := 0; fi < 4; fi++ {
		fi := fi
		us = append(us, mc.Unit{Name: fmt.Sprintf("structured/features-choice=%d", fi), Serial: true, Weight: 200, Run: func(r *mc.Recorder) {
			memo := &c3memo{first: map[string]string{}}
			var cnt, recs int64
			st := mc.Explore(mc.Options{DevBound: dev, PreemptBound: -1, Deadline: r.TimeUp}, func(c *mc.Ctx) bool {
				var tags []string
				x := c3structured(c, thorough, &tags)
				want := []int{1, 0, 2, 3}[fi]
				if len(x.Features) != want {
					return true
				}
				key := c.Describe()
				cas := "assembled record: " + key
				if _, ok := memo.first[key]; !ok {
					recs++
				}
				c3judge(r, memo, key, cas, tags, x)
				cnt++
				if cnt == 10 {
					r.Sample(cas + "\n" + memo.first[key])
				}
				return true
			})
			r.AddExplore(st, "structured")
			r.Evaluations, r.Traces = cnt, cnt
			r.AddStates(recs)
			r.AddNontrivial(cnt)
			r.Bound("structured", fmt.Sprintf("assembled records with at most %d deviations (sequence length, topology, metadata length 100/2000, 0/1/2/5 references with/without REMARK, 0..3 extra keyword blocks, free text made of the format's own keywords, 0..3 features in ascending or descending start order x 7 location shapes x cached text x 0/1/2/3/8 qualifiers) x EVERY iteration order of every map ranged over inside Build (all n! orders for n<=4, rotations and reversals beyond)", dev))
		}})
	}
	// (i) records in the image of the parser over generated files
	for sh := -1; sh < gbNumShapes; sh++ {
		sh := sh
		us = append(us, mc.Unit{Name: fmt.Sprintf("parsed/first-shape=%d", sh), Serial: true, Weight: 150, Run: func(r *mc.Recorder) {
			memo := &c3memo{first: map[string]string{}}
			var cnt, recs int64
			roots := [][]int{{0}}
			if sh >= 0 {
				roots = [][]int{{1, sh}, {2, sh}}
			}
			var st mc.Stats
			st.Exhaustive = true
			for _, rt := range roots {
				s1 := mc.Explore(mc.Options{DevBound: 1, PreemptBound: -1, Deadline: r.TimeUp, Root: rt}, func(c *mc.Ctx) bool {
					var tags []string
					rec := gbGenRecord(c, gbGenOpts{maxFeatures: 2, lengths: []int{120, 1, 60, 61, 1000}}, 0, &tags)
					key := c.Describe()
					var x poly.Sequence
					bad := false
					if p := catch(func() { x = genbank.Parse([]byte(gbWrite(rec))) }); p != "" {
						bad = true
					} else {
						c1ok := true
						c3gate(rec, x, &c1ok)
						bad = !c1ok
					}
					if bad {
						r.Skip(1) // not parsed per C01: upstream
						return true
					}
					if _, ok := memo.first[key]; !ok {
						recs++
					}
					c3judge(r, memo, key, "parsed record: features="+fmt.Sprint(gbFeatureTags3(tags))+" "+key, tags, x)
					cnt++
					return true
				})
				st.Execs += s1.Execs
				st.Transitions += s1.Transitions
				st.Exhaustive = st.Exhaustive && s1.Exhaustive
			}
			r.AddExplore(st, "parsed")
			r.Evaluations, r.Traces = cnt, cnt
			r.AddStates(recs)
			r.AddNontrivial(cnt)
			r.Bound("parsed", "every record the parser returns for the generated files with feature lists of length <=2 over 13 shapes and at most 1 further deviation, x every map iteration order inside Build")
		}})
	}
	// Write / Read through a file
	// widths of the LOCUS line: every locus-name length 1..40 x sequence lengths of 1..6 digits (the columns of the
	// line are fixed in the flat-file layout; a name and a length that together outgrow them must still come back)
	for _, L := range []int{1, 9, 10, 99, 100, 999, 1000, 9999, 10000, 99999, 100000} {
		L := L
		us = append(us, mc.Unit{Name: fmt.Sprintf("locus-widths/bases=%d", L), Weight: 10 + L/500, Run: func(r *mc.Recorder) {
			memo := &c3memo{first: map[string]string{}}
			var cnt int64
			{
				seq := gbSeq(L, 6)
				for nl := 1; nl <= 40; nl++ {
					if L >= 9999 && nl%4 != 0 && (nl < 18 || nl > 26) {
						continue
					}
					if L >= 99999 && tier != "thorough" && nl != 12 && nl != 22 && nl != 23 && nl != 40 {
						continue
					}
					name := ("NC_000913_thrLABC_operon_and_flanking_regions_x")[:nl]
					var s poly.Sequence
					s.Sequence = seq
					s.Meta.Locus = poly.Locus{Name: name, SequenceLength: strconv.Itoa(L), MoleculeType: "DNA", GenbankDivision: "SYN", ModificationDate: "01-JAN-2000", Linear: nl%2 == 0, Circular: nl%2 == 1}
					s.Meta.Definition, s.Meta.Accession, s.Meta.Version, s.Meta.Keywords = "Assembled record.", "XY000001", "XY000001.1", "."
					s.Meta.Source, s.Meta.Organism = "synthetic construct", "synthetic construct"
					s.Meta.Other = map[string]string{}
					f := poly.Feature{Type: "misc_feature", Attributes: map[string]string{"note": "n"}}
					f.SequenceLocation = poly.Location{Start: 0, End: 1}
					s.AddFeature(&f)
					key := fmt.Sprintf("locus name of %d characters, %d bases", nl, L)
					c3judge(r, memo, key, "assembled record: "+key, []string{"locus-width"}, s)
					cnt++
				}
			}
			r.Eval(cnt)
			r.AddStates(cnt)
			r.AddTransitions(cnt)
			r.AddNontrivial(cnt)
			r.Bound("locus-widths", "locus names of 1..40 characters x sequence lengths with 1..6 digits")
		}})
	}
	// conventional placeholder values in every string field, one field at a time ("." is what GenBank writes for "no
	// keywords"; a record that carries it as data must get it back)
	us = append(us, mc.Unit{Name: "placeholder-values", Serial: true, Weight: 30, Run: func(r *mc.Recorder) {
		memo := &c3memo{first: map[string]string{}}
		var cnt int64
		vals := []string{"", ".", "..", "-", "N/A", "null", "none", "0", "1", "?", "*", "unknown", "Unknown.", "a.", ".a", "x y", "//x", "ORIGIN", "FEATURES", "LOCUS"}
		mk := func() poly.Sequence {
			var s poly.Sequence
			s.Sequence = gbSeq(70, 6)
			s.Meta.Locus = poly.Locus{Name: "built1", SequenceLength: "70", MoleculeType: "DNA", GenbankDivision: "SYN", ModificationDate: "01-JAN-2000", Linear: true}
			s.Meta.Definition, s.Meta.Accession, s.Meta.Version, s.Meta.Keywords = "Assembled record.", "XY000001", "XY000001.1", "kw1; kw2."
			s.Meta.Source, s.Meta.Organism = "synthetic construct", "synthetic construct"
			s.Meta.Other = map[string]string{"COMMENT": "a comment"}
			s.Meta.References = []poly.Reference{{Index: "1", Range: "(bases 1 to 70)", Authors: "Smith,J.", Title: "A title", Journal: "J. Verif. 1 (1), 1-2 (2000)", PubMed: "100"}}
			f := poly.Feature{Type: "misc_feature", Attributes: map[string]string{"note": "n", "gene": "g"}}
			f.SequenceLocation = poly.Location{Start: 0, End: 10}
			s.AddFeature(&f)
			return s
		}
		fields := []struct {
			name string
			set  func(s *poly.Sequence, v string)
		}{
			{"DEFINITION", func(s *poly.Sequence, v string) { s.Meta.Definition = v }},
			{"ACCESSION", func(s *poly.Sequence, v string) { s.Meta.Accession = v }},
			{"VERSION", func(s *poly.Sequence, v string) { s.Meta.Version = v }},
			{"KEYWORDS", func(s *poly.Sequence, v string) { s.Meta.Keywords = v }},
			{"SOURCE", func(s *poly.Sequence, v string) { s.Meta.Source = v }},
			{"ORGANISM", func(s *poly.Sequence, v string) { s.Meta.Organism = v }},
			{"COMMENT", func(s *poly.Sequence, v string) { s.Meta.Other["COMMENT"] = v }},
			{"reference AUTHORS", func(s *poly.Sequence, v string) { s.Meta.References[0].Authors = v }},
			{"reference TITLE", func(s *poly.Sequence, v string) { s.Meta.References[0].Title = v }},
			{"reference JOURNAL", func(s *poly.Sequence, v string) { s.Meta.References[0].Journal = v }},
			{"qualifier value", func(s *poly.Sequence, v string) { s.Features[0].Attributes["note"] = v }},
		}
		quoted := []string{"\"", "a \"b\"", "\"quoted\" start", "ends with a quote \"", "\"\"", "it's", "a \"b\" c"}
		for _, fd := range fields {
			vs := vals
			if fd.name == "qualifier value" || fd.name == "DEFINITION" || fd.name == "COMMENT" || fd.name == "reference TITLE" {
				vs = append(append([]string{}, vals...), quoted...) // quotation marks at either end of a value and inside it
			}
			for _, v := range vs {
				if strings.HasPrefix(v, "//") && fd.name != "qualifier value" && fd.name != "DEFINITION" {
					continue
				}
				if (v == "ORIGIN" || v == "FEATURES" || v == "LOCUS" || v == "//x") && fd.name != "DEFINITION" && fd.name != "qualifier value" && fd.name != "COMMENT" {
					continue
				}
				x := mk()
				fd.set(&x, v)
				key := fmt.Sprintf("%s is %q", fd.name, v)
				c3judge(r, memo, key, "assembled record: "+key, []string{"placeholder"}, x)
				cnt++
			}
		}
		r.Eval(cnt)
		r.AddStates(cnt)
		r.AddTransitions(cnt)
		r.AddNontrivial(cnt)
		r.Bound("placeholder-values", fmt.Sprintf("%d placeholder and keyword-like values x %d string fields, one field at a time", len(vals), len(fields)))
	}})
	// molecule type x sequence alphabet: the letters of the record come back as they are, whatever the declared type
	us = append(us, mc.Unit{Name: "molecule-x-alphabet", Serial: true, Weight: 20, Run: func(r *mc.Recorder) {
		memo := &c3memo{first: map[string]string{}}
		var cnt int64
		for _, mt := range []string{"DNA", "mRNA", "tRNA", "rRNA"} { // the LOCUS molecule types of the property's domain
			for _, alpha := range []string{"acgt", "acgu", "acgtu", "acgtn", "acgtrykmswbdhvn", "augc"} {
				for _, n := range []int{1, 59, 60, 61, 130} {
					var s poly.Sequence
					s.Sequence = lcgString(alpha, n, uint32(n))
					s.Meta.Locus = poly.Locus{Name: "built1", SequenceLength: strconv.Itoa(n), MoleculeType: mt, GenbankDivision: "SYN", ModificationDate: "01-JAN-2000", Linear: true}
					s.Meta.Definition, s.Meta.Accession, s.Meta.Version, s.Meta.Keywords = "Assembled record.", "XY000001", "XY000001.1", "."
					s.Meta.Source, s.Meta.Organism = "synthetic construct", "synthetic construct"
					s.Meta.Other = map[string]string{}
					f := poly.Feature{Type: "misc_feature", Attributes: map[string]string{"note": "n"}}
					f.SequenceLocation = poly.Location{Start: 0, End: 1}
					s.AddFeature(&f)
					key := fmt.Sprintf("molecule type %s, %d letters over %q", mt, n, alpha)
					c3judge(r, memo, key, "assembled record: "+key, []string{"molecule"}, s)
					cnt++
				}
			}
		}
		r.Eval(cnt)
		r.AddStates(cnt)
		r.AddTransitions(cnt)
		r.AddNontrivial(cnt)
		r.Bound("molecule-x-alphabet", "4 molecule types x 6 alphabets x 5 lengths")
	}})
	// every subset of the five sub-fields of a reference, in each of two references
	us = append(us, mc.Unit{Name: "reference-subsets", Serial: true, Weight: 30, Run: func(r *mc.Recorder) {
		memo := &c3memo{first: map[string]string{}}
		var cnt int64
		mk := func(i, mask int) poly.Reference {
			ref := poly.Reference{Index: strconv.Itoa(i), Range: "(bases 1 to 70)"}
			if mask&1 != 0 {
				ref.Authors = fmt.Sprintf("Author%d,A. and Other,B.", i)
			}
			if mask&2 != 0 {
				ref.Title = fmt.Sprintf("Title number %d of the reference", i)
			}
			if mask&4 != 0 {
				ref.Journal = fmt.Sprintf("J. Verif. %d (1), 1-2 (2000)", i)
			}
			if mask&8 != 0 {
				ref.PubMed = fmt.Sprint(7000 + i)
			}
			if mask&16 != 0 {
				ref.Remark = fmt.Sprintf("Erratum:[J. Verif. 2000;%d(2):99]", i)
			}
			return ref
		}
		for m1 := 0; m1 < 32; m1++ {
			for m2 := 0; m2 < 32; m2++ {
				var s poly.Sequence
				s.Sequence = gbSeq(70, 6)
				s.Meta.Locus = poly.Locus{Name: "built1", SequenceLength: "70", MoleculeType: "DNA", GenbankDivision: "SYN", ModificationDate: "01-JAN-2000", Linear: true}
				s.Meta.Definition, s.Meta.Accession, s.Meta.Version, s.Meta.Keywords = "Assembled record.", "XY000001", "XY000001.1", "."
				s.Meta.Source, s.Meta.Organism = "synthetic construct", "synthetic construct"
				s.Meta.Other = map[string]string{}
				s.Meta.References = []poly.Reference{mk(1, m1), mk(2, m2)}
				f := poly.Feature{Type: "misc_feature", Attributes: map[string]string{"note": "n"}}
				f.SequenceLocation = poly.Location{Start: 0, End: 10}
				s.AddFeature(&f)
				key := fmt.Sprintf("two references with field sets %05b and %05b (bits: Authors, Title, Journal, PubMed, Remark)", m1, m2)
				c3judge(r, memo, key, "assembled record: "+key, []string{"reference-subset"}, s)
				cnt++
			}
		}
		r.Eval(cnt)
		r.AddStates(cnt)
		r.AddTransitions(cnt)
		r.AddNontrivial(cnt)
		r.Bound("reference-subsets", "all 32 x 32 subsets of Authors, Title, Journal, PubMed, Remark in two references")
	}})
	// every printable character at the points where Build wraps a metadata value: all fill lengths 30..80 before it
	us = append(us, mc.Unit{Name: "wrap-boundaries", Serial: true, Weight: 60, Run: func(r *mc.Recorder) {
		memo := &c3memo{first: map[string]string{}}
		var cnt int64
		for ch := 0x21; ch <= 0x7e; ch++ {
			for fill := 30; fill <= 80; fill++ {
				if ch != '-' && ch != '/' && ch != '=' && ch != '.' && ch != ',' && ch != ';' && ch != ':' && ch != '"' && fill%7 != 0 {
					continue // every fill for the punctuation marks that writers and readers treat specially; every 7th otherwise
				}
				for form := 0; form < 2; form++ {
					w := string(rune(ch))
					if form == 1 {
						w = " " + w
					}
					text := "start " + strings.Repeat("x", fill) + w + " next words follow here and more of them to wrap again " + strings.Repeat("y", 40) + " end"
					for field := 0; field < 3; field++ {
						var s poly.Sequence
						s.Sequence = gbSeq(70, 6)
						s.Meta.Locus = poly.Locus{Name: "built1", SequenceLength: "70", MoleculeType: "DNA", GenbankDivision: "SYN", ModificationDate: "01-JAN-2000", Linear: true}
						s.Meta.Definition, s.Meta.Accession, s.Meta.Version, s.Meta.Keywords = "Assembled record.", "XY000001", "XY000001.1", "."
						s.Meta.Source, s.Meta.Organism = "synthetic construct", "synthetic construct"
						s.Meta.Other = map[string]string{}
						s.Meta.References = []poly.Reference{{Index: "1", Range: "(bases 1 to 70)", Authors: "Smith,J.", Title: "A title", Journal: "J. Verif. 1 (1), 1-2 (2000)"}}
						switch field {
						case 0:
							s.Meta.Definition = text
						case 1:
							s.Meta.Other["COMMENT"] = text
						case 2:
							s.Meta.References[0].Title = text
						}
						f := poly.Feature{Type: "misc_feature", Attributes: map[string]string{"note": "n"}}
						f.SequenceLocation = poly.Location{Start: 0, End: 10}
						s.AddFeature(&f)
						key := fmt.Sprintf("character %q (form %d) after %d filler letters in %s", rune(ch), form, fill, []string{"DEFINITION", "COMMENT", "a reference title"}[field])
						c3judge(r, memo, key, "assembled record: "+key, []string{"wrap-boundary"}, s)
						cnt++
					}
				}
			}
			if r.Enough() {
				break
			}
		}
		r.Eval(cnt)
		r.AddStates(cnt)
		r.AddTransitions(cnt)
		r.AddNontrivial(cnt)
		r.Bound("wrap-boundaries", "every printable character, glued to a word or alone, after every number of filler letters 30..80 (every 7th for letters and digits) in DEFINITION, COMMENT and a reference title")
	}})
	// every feature count 0..70 and counts around 100, 128, 256, 1000, under several GOMAXPROCS settings
	us = append(us, mc.Unit{Name: "feature-counts", Serial: true, Weight: 60, Run: func(r *mc.Recorder) {
		var cnt int64
		counts := []int{99, 100, 101, 127, 128, 129, 255, 256, 257, 1000}
		for n := 0; n <= 70; n++ {
			counts = append(counts, n)
		}
		withProcs([]int{1, 4, 7}, func(procs int) {
			memo := &c3memo{first: map[string]string{}}
			for _, nf := range counts {
				if nf > 300 && procs != 4 {
					continue
				}
				var s poly.Sequence
				s.Sequence = gbSeq(240, 6)
				s.Meta.Locus = poly.Locus{Name: "built1", SequenceLength: "240", MoleculeType: "DNA", GenbankDivision: "SYN", ModificationDate: "01-JAN-2000", Linear: true}
				s.Meta.Definition, s.Meta.Accession, s.Meta.Version, s.Meta.Keywords = "Assembled record.", "XY000001", "XY000001.1", "."
				s.Meta.Source, s.Meta.Organism = "synthetic construct", "synthetic construct"
				s.Meta.Other = map[string]string{}
				for i := 0; i < nf; i++ {
					f := poly.Feature{Type: []string{"gene", "CDS", "misc_feature"}[i%3], Attributes: map[string]string{"note": fmt.Sprintf("feature %d", i)}}
					if i%5 == 0 {
						f.Attributes["gene"] = "g" + strconv.Itoa(i)
					}
					a := (i * 7) % 200
					f.SequenceLocation = poly.Location{Start: a, End: a + 10 + i%20, Complement: i%4 == 1}
					s.AddFeature(&f)
				}
				key := fmt.Sprintf("%d features, GOMAXPROCS=%d", nf, procs)
				c3judge(r, memo, key, "assembled record: "+key, []string{"feature-count"}, s)
				cnt++
			}
		})
		r.Eval(cnt)
		r.AddStates(cnt)
		r.AddTransitions(cnt)
		r.AddNontrivial(cnt)
		r.Bound("feature-counts", "every feature count 0..70 and 99..101, 127..129, 255..257, 1000, GOMAXPROCS 1, 4, 7")
	}})
	us = append(us, mc.Unit{Name: "files", Weight: 10, Run: func(r *mc.Recorder) {
		dir, err := os.MkdirTemp("", "c03")
		if err != nil {
			panic(err)
		}
		defer os.RemoveAll(dir)
		var x poly.Sequence
		var tags []string
		once(func(c *mc.Ctx) { x = c3structured(c, false, &tags) })
		p := filepath.Join(dir, "w.gb")
		var back poly.Sequence
		if pn := catch(func() { genbank.Write(x, p); back = genbank.Read(p) }); pn != "" {
			r.Failf("no-panic", "Write/Read via file", nil, "a record", pn)
		} else {
			c3same(x, back, func(clause, exp, got string) { r.Failf(clause, "Write/Read via file", nil, exp, got) })
		}
		// writing a shorter record over a longer one at the same path
		long := x
		long.Sequence = gbSeq(900, 4)
		long.Meta.Locus.SequenceLength = "900"
		long.Meta.Definition = c3text(400)
		if pn := catch(func() { genbank.Write(long, p); genbank.Write(x, p); back = genbank.Read(p) }); pn != "" {
			r.Failf("no-panic", "Write long, Write short to the same path, Read", nil, "a record", pn)
		} else {
			c3same(x, back, func(clause, exp, got string) {
				r.Failf(clause, "Write of a long record, then Write of a short record to the same path, then Read", nil, exp, got)
			})
			if b, err := os.ReadFile(p); err == nil && string(b) != string(genbank.Build(x)) {
				r.Failf("write-file-is-build-text", "Write of a short record over a long one", nil, fmt.Sprint(len(genbank.Build(x)), " bytes"), fmt.Sprint(len(b), " bytes"))
			}
		}
		r.Eval(2)
	}})
	return us
}

// c3gate: the parsed record equals the abstract record in the C01 sense (only
// then is it "in the image of the parser" for this property).
func c3gate(rec gbRec, x poly.Sequence, ok *bool) {
	if x.Sequence != rec.seq || len(x.Features) != len(rec.feats) || x.Meta.Locus.SequenceLength != strconv.Itoa(len(rec.seq)) || len(x.Meta.References) != len(rec.refs) {
		*ok = false
		return
	}
	for i, f := range rec.feats {
		if x.Features[i].GbkLocationString != f.loc || len(x.Features[i].Attributes) != len(f.quals) {
			*ok = false
		}
		for _, qu := range f.quals {
			if x.Features[i].Attributes[qu.key] != qu.val {
				*ok = false
			}
		}
	}
}

func gbFeatureTags3(tags []string) []string {
	var o []string
	for _, t := range tags {
		if strings.HasPrefix(t, "feature:") {
			o = append(o, strings.TrimPrefix(t, "feature:"))
		}
	}
	return o
}

func init() {
	mc.Register(&mc.Harness{ID: "C03", Units: c03units,
		Rule:   "executions of Build, one per (record, iteration order of every map ranged over inside Build); states = distinct records; records are assembled structures with a deviation bound and every record the parser returns for generated files; non-trivial = all",
		Assume: []string{"range-over-map inside io/genbank is rewritten at build time (overlay) so that the iteration order is an explorer choice: all n! orders for maps of <=4 keys, rotations and reversals beyond", "location trees are compared up to partial flags of internal nodes, which the text form cannot carry", "locations written in the a..b> form are the recorded C02 finding and are not judged again by the layout clause"}})
}
