//go:build c19

package props

import (
	"fmt"
	"math"
	"strings"

	"github.com/TimothyStiles/poly/primers"

	"verif/mc"
)

// Oracle: unified nearest-neighbour parameters of SantaLucia & Hicks (2004), ten
// unique stacks; a stack and its reverse complement share one entry, so strand
// symmetry of the stack sum holds by construction.
type nnPar struct{ h, s float64 }

var nnUnique = map[string]nnPar{
	"AA": {-7.6, -21.3}, // = TT
	"AT": {-7.2, -20.4},
	"TA": {-7.2, -21.3},
	"CA": {-8.5, -22.7}, // = TG
	"GT": {-8.4, -22.4}, // = AC
	"CT": {-7.8, -21.0}, // = AG
	"GA": {-8.2, -22.2}, // = TC
	"CG": {-10.6, -27.2},
	"GC": {-9.8, -24.4},
	"GG": {-8.0, -19.9}, // = CC
}

var nnDG37 = map[string]float64{"AA": -1.00, "AT": -0.88, "TA": -0.58, "CA": -1.45, "GT": -1.44, "CT": -1.28, "GA": -1.30, "CG": -2.17, "GC": -2.24, "GG": -1.84}

func nnRC(s string) string {
	c := map[byte]byte{'A': 'T', 'T': 'A', 'C': 'G', 'G': 'C'}
	o := make([]byte, len(s))
	for i := 0; i < len(s); i++ {
		o[len(s)-1-i] = c[s[i]]
	}
	return string(o)
}

func nnStack(d string) nnPar {
	if p, ok := nnUnique[d]; ok {
		return p
	}
	if p, ok := nnUnique[nnRC(d)]; ok {
		return p
	}
	panic("no stack " + d)
}

func nnSelfCheck() {
	for k, p := range nnUnique {
		dg := p.h - 310.15*p.s/1000
		if math.Abs(dg-nnDG37[k]) > 0.025 {
			panic(fmt.Sprintf("oracle table entry %s gives dG37 %.3f, published %.2f", k, dg, nnDG37[k]))
		}
	}
	// all 16 stacks resolvable
	for _, a := range "ACGT" {
		for _, b := range "ACGT" {
			nnStack(string([]rune{a, b}))
		}
	}
}

const nnR = 1.9872

// nnOracle returns Tm, dH, dS for an upper-case ACGT sequence.
func nnOracle(s string, oligo, na, mg float64) (tm, dh, ds float64, f float64) {
	dh, ds = 0.2, -5.7 // initiation
	f = 4
	if s == nnRC(s) {
		ds += -1.4 // symmetry
		f = 1
	}
	if last := s[len(s)-1]; last == 'A' || last == 'T' {
		dh += 2.2
		ds += 6.9
	}
	ds += 0.368 * float64(len(s)-1) * math.Log(na+140*mg)
	for i := 0; i+1 < len(s); i++ {
		p := nnStack(s[i : i+2])
		dh += p.h
		ds += p.s
	}
	tm = dh*1000/(ds+nnR*math.Log(oligo/f)) - 273.15
	return
}

var c19oligo = []float64{1e-9, 100e-9, 500e-9, 10e-6, 1e-3}
var c19na = []float64{1e-3, 50e-3, 350e-3, 1}
var c19mg = []float64{0, 1.5e-3, 10e-3, 100e-3}

func near(a, b float64) bool {
	return math.Abs(a-b) <= 1e-6 || (math.IsNaN(a) && math.IsNaN(b)) || a == b
}

func c19seq(r *mc.Recorder, in string, cnt, nt *int64) {
	up := strings.ToUpper(in)
	var dh0 float64
	first := true
	tms := make([]float64, 0, 80)
	regime := make([]bool, 0, 80)
	for _, o := range c19oligo {
		for _, na := range c19na {
			for _, mg := range c19mg {
				var tm, dh, ds float64
				if p := catch(func() { tm, dh, ds = primers.SantaLucia(in, o, na, mg) }); p != "" {
					r.Failf("no-panic", q(in), nil, "values", "panic: "+p)
					return
				}
				*cnt++
				wtm, wdh, wds, f := nnOracle(up, o, na, mg)
				cs := fmt.Sprintf("%s oligo=%g Na=%g Mg=%g", in, o, na, mg)
				if !near(dh, wdh) {
					r.Failf("enthalpy", cs, nil, fmt.Sprint(wdh), fmt.Sprint(dh))
				}
				if !near(ds, wds) {
					r.Failf("entropy", cs, nil, fmt.Sprint(wds), fmt.Sprint(ds))
				}
				if !near(tm, wtm) {
					r.Failf("melting-temperature", cs, nil, fmt.Sprint(wtm), fmt.Sprint(tm))
				}
				if first {
					dh0, first = dh, false
				} else if dh != dh0 {
					r.Failf("enthalpy-independent-of-concentration", cs, nil, fmt.Sprint(dh0), fmt.Sprint(dh))
				}
				tms = append(tms, tm)
				regime = append(regime, wdh < 0 && wds+nnR*math.Log(o/f) < 0)
			}
		}
	}
	// monotonicity between grid neighbours that differ in exactly one concentration
	idx := func(i, j, k int) int { return (i*len(c19na)+j)*len(c19mg) + k }
	for i := range c19oligo {
		for j := range c19na {
			for k := range c19mg {
				a := idx(i, j, k)
				chk := func(b int, what string) {
					if regime[a] && regime[b] {
						*nt++
						if !(tms[b] > tms[a]) {
							r.Failf("monotone-"+what, fmt.Sprintf("%s grid point (%d,%d,%d)", in, i, j, k), nil, fmt.Sprintf("Tm increases above %g", tms[a]), fmt.Sprint(tms[b]))
						}
					}
				}
				if i+1 < len(c19oligo) {
					chk(idx(i+1, j, k), "oligo")
				}
				if j+1 < len(c19na) {
					chk(idx(i, j+1, k), "sodium")
				}
				if k+1 < len(c19mg) {
					chk(idx(i, j, k+1), "magnesium")
				}
			}
		}
	}
	// helpers
	var mt, md float64
	if p := catch(func() { mt = primers.MeltingTemp(in); md = primers.MarmurDoty(in) }); p != "" {
		r.Failf("no-panic", q(in), nil, "values", "panic: "+p)
		return
	}
	if w, _, _, _ := nnOracle(up, 500e-9, 50e-3, 0); !near(mt, w) {
		r.Failf("default-helper", in, nil, fmt.Sprint(w), fmt.Sprint(mt))
	}
	at := float64(strings.Count(up, "A") + strings.Count(up, "T"))
	gc := float64(strings.Count(up, "G") + strings.Count(up, "C"))
	if w := 2*at + 4*gc - 7; md != w {
		r.Failf("marmur-doty", in, nil, fmt.Sprint(w), fmt.Sprint(md))
	}
	*cnt += 2
}

func c19units(tier string) []mc.Unit {
	nnSelfCheck()
	var us []mc.Unit
	maxn := tier2(tier, 7, 8)
	for n := 2; n <= maxn; n++ {
		pres := []string{""}
		if n >= 6 {
			pres = nil
			for _, a := range "ACGT" {
				for _, b := range "ACGT" {
					pres = append(pres, string([]rune{a, b}))
				}
			}
		}
		for _, pre := range pres {
			n, pre := n, pre
			us = append(us, mc.Unit{Name: fmt.Sprintf("upper/n=%d/pre=%s", n, pre), Weight: int(pow(4, n-len(pre))/20) + 1, Run: func(r *mc.Recorder) {
				var cnt, nt, seqs int64
				enumStrings("ACGT", n-len(pre), func(b []byte) {
					s := pre + string(b)
					c19seq(r, s, &cnt, &nt)
					seqs++
					if seqs == 3 {
						tm, dh, ds, _ := nnOracle(s, 500e-9, 50e-3, 0)
						r.Sample(fmt.Sprintf("%s on the 5x4x4 concentration grid; at 500nM/50mM/0: oracle Tm=%.4f dH=%.2f dS=%.4f", s, tm, dh, ds))
					}
				})
				r.Eval(cnt)
				r.AddStates(seqs)
				r.AddTransitions(cnt)
				r.AddNontrivial(nt)
				r.Bound("sequences", fmt.Sprintf("all ACGT strings of length 2..%d x 80 grid points", maxn))
			}})
		}
	}
	sl := func(seq string, o, na, mg float64) hcall {
		return hcall{fmt.Sprintf("SantaLucia(%s,%g,%g,%g)", seq, o, na, mg), func() any {
			a, b, c := primers.SantaLucia(seq, o, na, mg)
			return fmt.Sprint(a, b, c)
		}, showSprint}
	}
	us = append(us, historyUnit("api-histories", []hcall{
		sl("ACGATGGCAGTAGCATGC", 500e-9, 50e-3, 0), sl("acgt", 1e-6, 1, 10e-3), sl("GAATTC", 100e-9, 350e-3, 1.5e-3), sl("AT", 1e-3, 1e-3, 100e-3),
		{"MeltingTemp(GTAAAACGACGGCCAGT)", func() any { return primers.MeltingTemp("GTAAAACGACGGCCAGT") }, showSprint},
		{"MarmurDoty(ACGTCCGGACTT)", func() any { return primers.MarmurDoty("ACGTCCGGACTT") }, showSprint},
	}, 3))
	// longer oligos (an enumerated family): lengths 9..30, 50, 200; pseudo-random, self-complementary and
	// A/T- or G/C-terminated variants, on the full grid
	us = append(us, mc.Unit{Name: "long", Weight: 100, Run: func(r *mc.Recorder) {
		var cnt, nt, seqs int64
		x := uint32(31)
		for _, n := range []int{9, 10, 12, 13, 14, 15, 16, 17, 20, 25, 30, 50, 200} {
			for v := 0; v < 4; v++ {
				b := make([]byte, n)
				for i := range b {
					x = x*1664525 + 1013904223
					b[i] = "ACGT"[(x>>26)%4]
				}
				s := string(b)
				switch v {
				case 1: // self-complementary
					h := s[:n/2]
					s = h + nnRC(h)
				case 2:
					s = s[:n-1] + "A"
				case 3:
					s = strings.ToLower(s[:n-1]) + "G"
				}
				c19seq(r, s, &cnt, &nt)
				seqs++
			}
		}
		r.Eval(cnt)
		r.AddStates(seqs)
		r.AddTransitions(cnt)
		r.AddNontrivial(seqs)
		r.Bound("long", "oligos of 9..30, 50 and 200 bases (pseudo-random, self-complementary, A- and G-terminated, mixed case) x 80 grid points")
	}})
	// structured sweep: every length 2..300 and geometrically beyond x the shapes of dnaShapes (homopolymers, G/C rich,
	// inverted repeats with self-complementary and other cores, inverted terminal repeats), on the full grid
	lens := sweepLengths(2, tier2(tier, 300, 500), tier2(tier, 3000, 20000))
	for part := 0; part < 8; part++ {
		part := part
		us = append(us, mc.Unit{Name: fmt.Sprintf("sweep/part=%d", part), Weight: 150, Run: func(r *mc.Recorder) {
			var cnt, nt, seqs int64
			for i, n := range lens {
				if i%8 != part {
					continue
				}
				for _, sh := range dnaShapes(n) {
					c19seq(r, sh.s, &cnt, &nt)
					seqs++
				}
				c19seq(r, lcgString("ACGTacgt", n, 9), &cnt, &nt)
				seqs++
			}
			r.Eval(cnt)
			r.AddStates(seqs)
			r.AddTransitions(cnt)
			r.AddNontrivial(seqs)
			r.Bound("sweep", fmt.Sprintf("%d lengths (every length to %d, then +7%% steps to %d) x about 20 shapes x 80 grid points", len(lens), tier2(tier, 300, 500), lens[len(lens)-1]))
		}})
	}
	// concentrations over many orders of magnitude: each of oligo, sodium and magnesium in turn takes every decade
	// from 1e-12 to 1 (and the half-decades between), the others staying at the default conditions
	us = append(us, mc.Unit{Name: "concentration-decades", Weight: 30, Run: func(r *mc.Recorder) {
		var cnt, nt int64
		var grid []float64
		for e := -12; e <= 0; e++ {
			grid = append(grid, math.Pow(10, float64(e)), 3*math.Pow(10, float64(e)))
		}
		for _, in := range []string{"ACGTAGCTAGCATCGATC", "GCGCGCGC", "ATATATATATAT", "acgtacgtacgtacgtacgtaaa", "GGGGCCCC", "AT"} {
			up := strings.ToUpper(in)
			for which := 0; which < 3; which++ {
				prev, prevOK := 0.0, false
				for _, v := range grid {
					o, na, mg := 500e-9, 50e-3, 0.0
					switch which {
					case 0:
						o = v
					case 1:
						na = v
					case 2:
						mg = v
					}
					var tm, dh, ds float64
					cs := fmt.Sprintf("%s oligo=%g Na=%g Mg=%g", in, o, na, mg)
					if p := catch(func() { tm, dh, ds = primers.SantaLucia(in, o, na, mg) }); p != "" {
						r.Failf("no-panic", cs, []string{"decades"}, "values", "panic: "+p)
						continue
					}
					cnt++
					wtm, wdh, wds, f := nnOracle(up, o, na, mg)
					if !near(dh, wdh) {
						r.Failf("enthalpy", cs, []string{"decades"}, fmt.Sprint(wdh), fmt.Sprint(dh))
					}
					if !near(ds, wds) {
						r.Failf("entropy", cs, []string{"decades"}, fmt.Sprint(wds), fmt.Sprint(ds))
					}
					if !near(tm, wtm) {
						r.Failf("melting-temperature", cs, []string{"decades"}, fmt.Sprint(wtm), fmt.Sprint(tm))
					}
					reg := wdh < 0 && wds+nnR*math.Log(o/f) < 0
					if reg && prevOK {
						nt++
						if !(tm > prev) {
							r.Failf("monotone-"+[]string{"oligo", "sodium", "magnesium"}[which], cs, []string{"decades"}, fmt.Sprintf("Tm above %g (the value one step lower)", prev), fmt.Sprint(tm))
						}
					}
					prev, prevOK = tm, reg
				}
			}
		}
		r.Eval(cnt)
		r.AddStates(cnt)
		r.AddTransitions(cnt)
		r.AddNontrivial(nt)
		r.Bound("concentration-decades", "6 oligos x each of the three concentrations over 26 values from 1e-12 to 3 (others at the default conditions)")
	}})
	// case masks
	us = append(us, mc.Unit{Name: "case", Weight: 200, Run: func(r *mc.Recorder) {
		var cnt, nt, seqs int64
		for n := 2; n <= 4; n++ {
			enumStrings("ACGT", n, func(b []byte) {
				for m := 1; m < 1<<n; m++ {
					bs := append([]byte(nil), b...)
					for i := 0; i < n; i++ {
						if m&(1<<i) != 0 {
							bs[i] += 32
						}
					}
					c19seq(r, string(bs), &cnt, &nt)
					seqs++
				}
			})
		}
		// lower case and alternating for 5..6
		for n := 5; n <= 6; n++ {
			enumStrings("ACGT", n, func(b []byte) {
				alt := append([]byte(nil), b...)
				for i := range alt {
					if i%2 == 1 {
						alt[i] += 32
					}
				}
				c19seq(r, strings.ToLower(string(b)), &cnt, &nt)
				c19seq(r, string(alt), &cnt, &nt)
				seqs += 2
			})
		}
		r.Eval(cnt)
		r.AddStates(seqs)
		r.AddTransitions(cnt)
		r.AddNontrivial(seqs)
		r.Bound("case", "all case masks for length 2..4; lower and alternating case for 5..6")
	}})
	return us
}

func init() {
	mc.Register(&mc.Harness{ID: "C19", Units: c19units,
		Rule:   "distinct (sequence, oligo, sodium, magnesium) points enumerated completely; states = distinct sequences; non-trivial = pairs of grid-adjacent conditions inside the duplex-forming regime on which strict monotonicity was evaluated",
		Assume: []string{"the oracle's 10-entry nearest-neighbour table (SantaLucia & Hicks 2004), validated at start-up against the published dG37 column", "the terminal A/T term applies to the 3' end and the salt term is 0.368*(N-1)*ln(Na+140*Mg), as the function documents", "absolute tolerance 1e-6"}})
}
