//go:build c06

package props

import (
	"fmt"
	"sort"
	"strings"

	"github.com/TimothyStiles/poly/transform/codon"

	"verif/mc"
)

func setEq(got []string, want string) (bool, string, string) {
	g := append([]string(nil), got...)
	sort.Strings(g)
	w := strings.Fields(want)
	sort.Strings(w)
	return strings.Join(g, " ") == strings.Join(w, " "), strings.Join(w, " "), strings.Join(g, " ")
}

func c06ids() []int {
	var ids []int
	for id := range ncbiCodes {
		ids = append(ids, id)
	}
	sort.Ints(ids)
	return ids
}

func c06tr(r *mc.Recorder, id int, t codon.Table, tbl map[string]byte, dna, clause string) string {
	var got string
	var err error
	if p := catch(func() { got, err = codon.Translate(dna, t) }); p != "" {
		r.Failf("no-panic", fmt.Sprintf("table %d %s", id, q(dna)), nil, "translation", "panic: "+p)
		return ""
	}
	if err != nil {
		r.Failf(clause, fmt.Sprintf("table %d %s", id, q(dna)), nil, "translation", "error: "+err.Error())
		return ""
	}
	if want := ncbiTranslate(tbl, dna); got != want {
		r.Failf(clause, fmt.Sprintf("table %d %s", id, q(dna)), []string{fmt.Sprintf("table=%d", id)}, want, got)
	}
	return got
}

func c06units(tier string) []mc.Unit {
	var us []mc.Unit
	thorough := tier == "thorough"
	for _, id := range c06ids() {
		id := id
		us = append(us, mc.Unit{Name: fmt.Sprintf("table/%d", id), Weight: 10, Run: func(r *mc.Recorder) {
			tbl := ncbiTable(id)
			var t codon.Table
			if p := catch(func() { t = codon.GetCodonTable(id) }); p != "" {
				r.Failf("table-present", fmt.Sprint("table ", id), nil, "a table", "panic: "+p)
				return
			}
			if len(t.AminoAcids) == 0 {
				r.Failf("table-present", fmt.Sprint("table ", id), nil, "a table", "empty table")
				return
			}
			var cnt int64
			// every codon
			enumStrings("TCAG", 3, func(b []byte) {
				c06tr(r, id, t, tbl, string(b), "codon-assignment")
				cnt++
			})
			if ok, w, g := setEq(t.StartCodons, ncbiCodes[id].starts); !ok {
				r.Failf("start-codons", fmt.Sprint("table ", id), nil, w, g)
			}
			if ok, w, g := setEq(t.StopCodons, ncbiCodes[id].stops); !ok {
				r.Failf("stop-codons", fmt.Sprint("table ", id), nil, w, g)
			}
			// all 2-codon strings with 0,1,2 trailing letters (all letters for the trailing part)
			enumStrings("ACGT", 6, func(b []byte) {
				s := string(b)
				full := c06tr(r, id, t, tbl, s, "in-frame")
				cnt++
				// concatenation at the codon boundary
				a, _ := codon.Translate(s[:3], t)
				c, _ := codon.Translate(s[3:], t)
				if a+c != full {
					r.Failf("concatenation", fmt.Sprintf("table %d %s|%s", id, s[:3], s[3:]), nil, full, a+c)
				}
			})
			// trailing partial codons: every 1- and 2-letter tail after every single codon
			enumStrings("ACGT", 3, func(b []byte) {
				for tl := 1; tl <= 2; tl++ {
					enumStrings("ACGT", tl, func(tb []byte) {
						c06tr(r, id, t, tbl, string(b)+string(tb), "trailing-partial-codon")
						cnt++
					})
				}
			})
			// inputs shorter than one codon translate to nothing
			for _, s := range []string{"A", "AC", "t", "gg"} {
				c06tr(r, id, t, tbl, s, "trailing-partial-codon")
				cnt++
			}
			// case masks of every 2-codon string (tables 1 and 11; all tables when thorough)
			if id == 1 || id == 11 || thorough {
				enumStrings("ACGT", 6, func(b []byte) {
					for m := 1; m < 64; m++ {
						bs := append([]byte(nil), b...)
						for i := 0; i < 6; i++ {
							if m&(1<<i) != 0 {
								bs[i] += 32
							}
						}
						c06tr(r, id, t, tbl, string(bs), "case")
						cnt++
					}
				})
			}
			// every codon-boundary split of all 3-codon strings (tables 1, 2, 11; all when thorough)
			if id == 1 || id == 2 || id == 11 || thorough {
				enumStrings("ACGT", 9, func(b []byte) {
					s := string(b)
					full, _ := codon.Translate(s, t)
					cnt++
					if want := ncbiTranslate(tbl, s); full != want {
						r.Failf("in-frame", fmt.Sprintf("table %d %s", id, s), nil, want, full)
					}
					for _, k := range []int{3, 6} {
						a, _ := codon.Translate(s[:k], t)
						c, _ := codon.Translate(s[k:], t)
						if a+c != full {
							r.Failf("concatenation", fmt.Sprintf("table %d %s|%s", id, s[:k], s[k:]), nil, full, a+c)
						}
					}
				})
			}
			r.Eval(cnt)
			r.AddStates(cnt)
			r.AddTransitions(cnt)
			r.AddNontrivial(int64(len(strings.Fields(ncbiCodes[id].diff))) + 64)
			if id == 2 {
				r.Sample("table 2: all 64 codons vs NCBI (standard code with AGA=* AGG=* ATA=M TGA=W); starts ATT ATC ATA ATG GTG; stops TAA TAG AGA AGG")
			}
			r.Bound("tables", "all 25 table ids x 64 codons; all 2-codon strings; all tails; case masks; 3-codon splits")
		}})
	}
	// structured families per table: every length 0..450 and geometrically beyond x shapes; gene-shaped sequences
	// (every start codon of the table, a body without stops, every stop codon); upper/lower case split at every position
	for _, id := range c06ids() {
		id := id
		us = append(us, mc.Unit{Name: fmt.Sprintf("sweep/table=%d", id), Weight: 40, Run: func(r *mc.Recorder) {
			tbl := ncbiTable(id)
			var t codon.Table
			if p := catch(func() { t = codon.GetCodonTable(id) }); p != "" || len(t.AminoAcids) == 0 {
				return // reported by table/<id>
			}
			var cnt int64
			concat := func(s string, ks []int, what string) {
				full := c06tr(r, id, t, tbl, s, "in-frame")
				cnt++
				for _, k := range ks {
					k -= k % 3
					if k <= 0 || k >= len(s) {
						continue
					}
					a, _ := codon.Translate(s[:k], t)
					c, _ := codon.Translate(s[k:], t)
					cnt++
					if a+c != full {
						r.Failf("concatenation", fmt.Sprintf("table %d %s, %d letters, split at %d", id, what, len(s), k), nil, q(full), q(a+c))
					}
				}
			}
			lens := sweepLengths(1, tier2(tier, 450, 900), tier2(tier, 20000, 100000)) // the empty string is rejected with an error (outside the property)
			for _, n := range lens {
				shapes := dnaShapes(n)
				shapes = append(shapes, shaped{"mixed case", lcgString("ACGTacgt", n, 8)}, shaped{"lower case", strings.ToLower(lcgString("ACGT", n, 9))})
				for _, sh := range shapes {
					concat(sh.s, []int{3, n / 2, n - 3}, sh.shape)
				}
			}
			// gene-shaped
			var sense []string
			enumStrings("TCAG", 3, func(b []byte) {
				if tbl[string(b)] != '*' {
					sense = append(sense, string(b))
				}
			})
			for _, start := range strings.Fields(ncbiCodes[id].starts) {
				for _, stop := range strings.Fields(ncbiCodes[id].stops) {
					for _, k := range []int{0, 1, 2, 3, 5, 8, 13, 20, 21, 22, 23, 24, 25, 26, 27, 30, 31, 32, 33, 34, 40, 45, 60, 100, 333, 1000} {
						var b strings.Builder
						b.WriteString(start)
						x := uint32(k*7 + 1)
						for i := 0; i < k; i++ {
							x = x*1664525 + 1013904223
							b.WriteString(sense[int(x>>16)%len(sense)])
						}
						b.WriteString(stop)
						g := b.String()
						ks := []int{3, len(g) - 3, len(g) / 2}
						concat(g, ks, fmt.Sprintf("gene %s + %d codons + %s", start, k, stop))
						concat(strings.ToLower(g), ks, fmt.Sprintf("lower-case gene %s + %d codons + %s", start, k, stop))
						concat(g+"A", ks, fmt.Sprintf("gene %s + %d codons + %s and one more letter", start, k, stop))
					}
				}
			}
			// case split at every position
			for _, n := range []int{60, 150, 204, 402, 1000} {
				s := lcgString("ACGT", n, 12)
				for h := 0; h <= n; h++ {
					c06tr(r, id, t, tbl, s[:h]+strings.ToLower(s[h:]), "case")
					c06tr(r, id, t, tbl, strings.ToLower(s[:h])+s[h:], "case")
					cnt += 2
				}
			}
			r.Eval(cnt)
			r.AddStates(cnt)
			r.AddTransitions(cnt)
			r.AddNontrivial(cnt)
			r.Bound("sweep", fmt.Sprintf("per table: %d lengths (every length to %d, then +7%% steps to %d) x about 22 shapes; complete genes for every start x stop codon x 26 body lengths; upper/lower split at every position of 5 sequences", len(lens), tier2(tier, 450, 900), lens[len(lens)-1]))
		}})
	}
	// every length 1..L (tables 1, 2, 11; one pseudo-random mixed-case sequence per length)
	maxLen := tier2(tier, 12300, 40000)
	for _, id := range []int{1, 2, 11} {
		id := id
		for part := 0; part < 4; part++ {
			part := part
			us = append(us, mc.Unit{Name: fmt.Sprintf("every-length/table=%d/part=%d", id, part), Weight: maxLen / 100, Run: func(r *mc.Recorder) {
				tbl := ncbiTable(id)
				var t codon.Table
				if p := catch(func() { t = codon.GetCodonTable(id) }); p != "" || len(t.AminoAcids) == 0 {
					return
				}
				full := lcgString("ACGTacgtACGT", maxLen, uint32(id))
				var cnt int64
				for n := 1 + part; n <= maxLen; n += 4 {
					s := full[maxLen-n:]
					whole := c06tr(r, id, t, tbl, s, "in-frame")
					k := n / 2
					k -= k % 3
					if k > 0 {
						a, _ := codon.Translate(s[:k], t)
						c, _ := codon.Translate(s[k:], t)
						if a+c != whole {
							r.Failf("concatenation", fmt.Sprintf("table %d pseudo-random sequence of %d letters split at %d", id, n, k), nil, q(whole), q(a+c))
						}
					}
					cnt += 2
					if r.Enough() {
						break
					}
				}
				r.Eval(cnt)
				r.AddStates(cnt)
				r.AddTransitions(cnt)
				r.AddNontrivial(cnt)
				r.Bound("every-length", fmt.Sprintf("every sequence length 1..%d for tables 1, 2, 11", maxLen))
			}})
		}
	}
	// the tables the library offers are still NCBI's after the combining operations were used on them
	// (runs last in its own unit: what a call may leave behind in the package would show here)
	us = append(us, mc.Unit{Name: "after-combining", Weight: 30, Run: func(r *mc.Recorder) {
		var cnt int64
		ids := c06ids()
		for _, a := range ids {
			for _, b := range []int{1, 2, 4, 11} {
				if a == b {
					continue
				}
				catch(func() {
					codon.CompromiseCodonTable(codon.GetCodonTable(a), codon.GetCodonTable(b), 0.1)
					codon.AddCodonTable(codon.GetCodonTable(a), codon.GetCodonTable(b))
					codon.Translate("ATGAAATAA", codon.GetCodonTable(a))
				})
				cnt++
			}
		}
		for _, id := range ids {
			t := codon.GetCodonTable(id)
			tbl := ncbiTable(id)
			enumStrings("TCAG", 3, func(bb []byte) {
				c06tr(r, id, t, tbl, string(bb), "codon-assignment-after-combining")
			})
			if ok, w, g := setEq(t.StartCodons, ncbiCodes[id].starts); !ok {
				r.Failf("start-codons-after-combining", fmt.Sprint("table ", id, " after Compromise/Add calls on default tables"), nil, w, g)
			}
			if ok, w, g := setEq(t.StopCodons, ncbiCodes[id].stops); !ok {
				r.Failf("stop-codons-after-combining", fmt.Sprint("table ", id, " after Compromise/Add calls on default tables"), nil, w, g)
			}
		}
		r.Eval(cnt)
		r.AddStates(cnt)
		r.AddTransitions(cnt)
		r.AddNontrivial(cnt)
	}})
	us = append(us, historyUnit("api-histories", codonMenu()[:8], 3))
	// ids the library must offer
	us = append(us, mc.Unit{Name: "ids", Run: func(r *mc.Recorder) {
		r.Bound("ids", fmt.Sprint(c06ids()))
		r.Eval(25)
	}})
	return us
}

func init() {
	mc.Register(&mc.Harness{ID: "C06", Units: c06units,
		Rule:   "distinct (table id, DNA string) pairs enumerated completely within the bounds; non-trivial = the 64 codons of each table plus each reassigned codon",
		Assume: []string{"the oracle's transcription of NCBI gc.prt (standard code + per-table reassignments + start/stop sets, written as differences from table 1)"}})
}
