//go:build c20

package props

import (
	"bytes"
	"compress/gzip"
	"encoding/xml"
	"fmt"
	"io"
	"os"
	"path/filepath"
	"strings"
	"time"

	"github.com/TimothyStiles/poly/io/uniprot"

	"verif/mc"
	"verif/sched"
)

type c20entry struct {
	acc, names []string
	seq        string
}

func c20entries(k int) []c20entry {
	all := []c20entry{
		{[]string{"P00001"}, []string{"ONE_TEST"}, "MKVLA"},
		{[]string{"Q00002", "Q10002"}, []string{"TWO_TEST", "TWO_ALT"}, "MGSSHHHHHHSS"},
		{[]string{"O00003"}, []string{"THREE_TEST"}, "MA"},
	}
	var out []c20entry
	for i := 0; i < k; i++ {
		e := all[i%3]
		if i >= 3 {
			e.acc = []string{fmt.Sprintf("A%05d", i)}
		}
		out = append(out, e)
	}
	return out
}

// c20doc is the independent writer.
func c20doc(es []c20entry) []byte {
	var b bytes.Buffer
	b.WriteString(`<?xml version="1.0" encoding="UTF-8"?>` + "\n")
	b.WriteString(`<uniprot xmlns="http://uniprot.org/uniprot">` + "\n")
	for _, e := range es {
		b.WriteString(`<entry dataset="Swiss-Prot" created="2000-05-30" modified="2019-07-03" version="7">` + "\n")
		for _, a := range e.acc {
			b.WriteString("<accession>" + a + "</accession>\n")
		}
		for _, n := range e.names {
			b.WriteString("<name>" + n + "</name>\n")
		}
		fmt.Fprintf(&b, `<sequence length="%d" mass="1" checksum="X" modified="2000-05-30" version="1">%s</sequence>`+"\n", len(e.seq), e.seq)
		b.WriteString("</entry>\n")
	}
	b.WriteString("</uniprot>\n")
	return b.Bytes()
}

// c20scan: independent pass of encoding/xml over the same bytes: number of
// complete <entry> elements before the first error, and whether the stream is
// well-formed.
func c20scan(data io.Reader) (complete int, wellFormed bool) {
	d := xml.NewDecoder(data)
	depth := 0
	for {
		t, err := d.Token()
		if err == io.EOF {
			return complete, true
		}
		if err != nil {
			return complete, false
		}
		switch x := t.(type) {
		case xml.StartElement:
			depth++
		case xml.EndElement:
			depth--
			if x.Name.Local == "entry" && depth == 1 {
				complete++
			}
		}
	}
}

// c20extract reads the entries of a well-formed document independently
// (token level, namespace aware).
func c20extract(data io.Reader) []c20entry {
	const ns = "http://uniprot.org/uniprot"
	d := xml.NewDecoder(data)
	var out []c20entry
	var cur *c20entry
	var stack []xml.Name
	var text strings.Builder
	for {
		t, err := d.Token()
		if err != nil {
			return out
		}
		switch x := t.(type) {
		case xml.StartElement:
			stack = append(stack, x.Name)
			if len(stack) == 2 && x.Name.Space == ns && x.Name.Local == "entry" {
				cur = &c20entry{}
			}
			text.Reset()
		case xml.CharData:
			text.Write(x)
		case xml.EndElement:
			if cur != nil && len(stack) == 3 && x.Name.Space == ns {
				switch x.Name.Local {
				case "accession":
					cur.acc = append(cur.acc, text.String())
				case "name":
					cur.names = append(cur.names, text.String())
				case "sequence":
					cur.seq = text.String()
				}
			}
			if cur != nil && len(stack) == 2 {
				out = append(out, *cur)
				cur = nil
			}
			stack = stack[:len(stack)-1]
			text.Reset()
		}
	}
}

func c20sameList(a, b []c20entry) bool {
	if len(a) != len(b) {
		return false
	}
	for i := range a {
		if fmt.Sprint(a[i]) != fmt.Sprint(b[i]) {
			return false
		}
	}
	return true
}

func c20show(es []uniprot.Entry) string {
	var p []string
	for _, e := range es {
		p = append(p, fmt.Sprintf("{%v %v %q}", e.Accession, e.Name, e.Sequence.Value))
	}
	return "[" + strings.Join(p, " ") + "]"
}

func c20same(g uniprot.Entry, w c20entry) bool {
	return strings.Join(g.Accession, ",") == strings.Join(w.acc, ",") && strings.Join(g.Name, ",") == strings.Join(w.names, ",") && g.Sequence.Value == w.seq
}

type c20run struct {
	got     []uniprot.Entry
	nerr    int
	closedE bool
	closedR bool
}

// c20exec runs Parse on the stream under the scheduler with consumer S
// (entries first, then errors) or P (two tasks, concurrently).
func c20exec(c *mc.Ctx, mk func() io.Reader, parallel bool, ce, cr int) (sched.Outcome, c20run) {
	var res c20run
	out := sched.Run(c, sched.Options{Horizon: 10000, MaxTasks: 100}, func() {
		entries := make(chan uniprot.Entry, ce)
		errs := make(chan error, cr)
		rd := mk()
		sched.Go(func() { uniprot.Parse(rd, entries, errs) })
		drainE := func() {
			for {
				e, ok := sched.Recv2(entries)
				if !ok {
					res.closedE = true
					return
				}
				res.got = append(res.got, e)
			}
		}
		drainR := func() {
			for {
				_, ok := sched.Recv2(errs)
				if !ok {
					res.closedR = true
					return
				}
				res.nerr++
			}
		}
		if parallel {
			sched.Go(drainR)
			drainE()
		} else {
			drainE()
			drainR()
		}
	})
	return out, res
}

func c20judge(r *mc.Recorder, cas string, tags []string, choices []int, out sched.Outcome, res c20run, want []c20entry, complete int, wellFormed bool) bool {
	fail := func(clause, exp, got string) bool {
		r.Fail(mc.Failure{Clause: clause, Case: cas, Tags: tags, Choices: choices, Expected: exp, Got: got})
		return false
	}
	if out.String() != "ok" {
		return fail("terminates-closed", "parser and consumers finish with both channels closed", out.String())
	}
	if !res.closedE || !res.closedR {
		return fail("terminates-closed", "both channels closed", fmt.Sprintf("entries closed=%v errors closed=%v", res.closedE, res.closedR))
	}
	if wellFormed {
		if res.nerr != 0 {
			return fail("no-spurious-error", "no error", fmt.Sprint(res.nerr, " errors"))
		}
		if len(res.got) != len(want) {
			return fail("entries", fmt.Sprint(len(want), " entries"), c20show(res.got))
		}
	} else {
		if res.nerr == 0 {
			return fail("error-reported", "at least one error", "none; delivered "+c20show(res.got))
		}
		if len(res.got) < complete {
			return fail("entries-before-damage", fmt.Sprint(complete, " complete entries delivered first"), c20show(res.got))
		}
	}
	n := complete
	if wellFormed {
		n = len(want)
	}
	for i := 0; i < n; i++ {
		if !c20same(res.got[i], want[i]) {
			return fail("entries", fmt.Sprintf("entry %d = %v", i, want[i]), c20show(res.got))
		}
	}
	return true
}

type c20stream struct {
	name   string
	data   []byte
	gz     bool
	want   []c20entry
	chunk  int
	tags   []string
	weight int
}

func (s c20stream) reader() io.Reader {
	var rd io.Reader = bytes.NewReader(s.data)
	if s.chunk > 0 && s.chunk < len(s.data) {
		rd = io.MultiReader(bytes.NewReader(s.data[:s.chunk]), bytes.NewReader(s.data[s.chunk:]))
	}
	if s.gz {
		z, err := gzip.NewReader(rd)
		if err != nil {
			return &errReader{err}
		}
		return z
	}
	return rd
}

type errReader struct{ err error }

func (e *errReader) Read([]byte) (int, error) { return 0, e.err }

func c20gz(b []byte) []byte {
	var z bytes.Buffer
	w := gzip.NewWriter(&z)
	w.Write(b)
	w.Close()
	return z.Bytes()
}

type c20cfg struct {
	parallel bool
	ce, cr   int
}

func c20cfgs(tier string) []c20cfg {
	var out []c20cfg
	for _, ce := range []int{0, 1, 100} {
		out = append(out, c20cfg{false, ce, 100})
	}
	for _, ce := range []int{0, 1, 100} {
		for _, cr := range []int{0, 1, 100} {
			out = append(out, c20cfg{true, ce, cr})
		}
	}
	return out
}

func c20explore(r *mc.Recorder, s c20stream, cfgs []c20cfg) {
	complete, wf := c20scan(s.reader())
	onlyTermination := false
	if wf && len(s.tags) > 0 {
		// the damage left a well-formed document with different content (a changed namespace, attribute or text):
		// what it "contains" is no longer what was written and the statement does not say how to read it;
		// only termination with both channels closed is judged
		onlyTermination = true
		r.Skip(1)
	}
	for _, cf := range cfgs {
		cf := cf
		stop := false
		st := mc.Explore(mc.Options{DevBound: 0, PreemptBound: -1, Prune: true, Deadline: r.TimeUp}, func(c *mc.Ctx) bool {
			out, res := c20exec(c, s.reader, cf.parallel, cf.ce, cf.cr)
			if out.Cut {
				return true
			}
			r.Outcome(fmt.Sprint(out.String(), len(res.got), res.nerr > 0))
			cas := fmt.Sprintf("%s consumer=%s cap(entries)=%d cap(errors)=%d", s.name, map[bool]string{false: "S", true: "P"}[cf.parallel], cf.ce, cf.cr)
			var ok bool
			if onlyTermination {
				ok = out.String() == "ok" && res.closedE && res.closedR
				if !ok {
					r.Fail(mc.Failure{Clause: "terminates-closed", Case: cas, Tags: s.tags, Choices: c.Choices(), Expected: "parser and consumers finish with both channels closed", Got: out.String()})
				}
			} else {
				ok = c20judge(r, cas, s.tags, c.Choices(), out, res, s.want, complete, wf)
			}
			if !ok || out.Stuck {
				stop = true
				return false // one failing schedule per stream and configuration is enough
			}
			return true
		})
		if stop {
			st.Exhaustive = true // stopped at a violation, not at a cap
		}
		r.AddExplore(st, s.name)
		if !wf {
			r.AddNontrivial(int64(st.Execs))
		}
		if stop && r.FailCount > 30 {
			return
		}
	}
}

func c20units(tier string) []mc.Unit {
	var us []mc.Unit
	thorough := tier == "thorough"
	maxK := tier2(tier, 2, 3)
	cfgs := c20cfgs(tier)
	for k := 0; k <= maxK; k++ {
		es := c20entries(k)
		doc := c20doc(es)
		// well-formed document
		k := k
		us = append(us, mc.Unit{Name: fmt.Sprintf("wellformed/k=%d", k), Serial: true, Weight: 50 * (k + 1), Run: func(r *mc.Recorder) {
			c20explore(r, c20stream{name: fmt.Sprintf("k=%d well-formed", k), data: doc, want: es}, cfgs)
			c20explore(r, c20stream{name: fmt.Sprintf("k=%d well-formed gzip", k), data: c20gz(doc), gz: true, want: es}, cfgs[:3])
			c20explore(r, c20stream{name: fmt.Sprintf("k=%d well-formed chunked", k), data: doc, chunk: len(doc) / 2, want: es}, cfgs[:1])
			r.Sample(fmt.Sprintf("document with %d entries (%d bytes): %s", k, len(doc), q(string(doc))))
			r.Bound("consumers", "S (entries then errors; errors capacity 100, entries 0/1/100) and P (two tasks; capacities {0,1,100}^2); all interleavings, visited-state pruning")
		}})
		// truncation at every offset, in slices of offsets so that units balance
		const slice = 40
		for lo := 0; lo < len(doc); lo += slice {
			lo := lo
			hi := lo + slice
			if hi > len(doc) {
				hi = len(doc)
			}
			us = append(us, mc.Unit{Name: fmt.Sprintf("truncate/k=%d/%d-%d", k, lo, hi), Serial: true, Weight: 40, Run: func(r *mc.Recorder) {
				for i := lo; i < hi; i++ {
					c20explore(r, c20stream{name: fmt.Sprintf("k=%d truncated at byte %d of %d", k, i, len(doc)), data: doc[:i], want: es, tags: []string{"truncated"}}, cfgs)
				}
				r.Bound(fmt.Sprintf("truncation/k=%d", k), fmt.Sprintf("every byte offset 0..%d", len(doc)-1))
			}})
		}
		if thorough || k <= 1 {
			// corruption: one byte replaced by '<' or deleted, at every offset
			for lo := 0; lo < len(doc); lo += slice {
				lo := lo
				hi := lo + slice
				if hi > len(doc) {
					hi = len(doc)
				}
				us = append(us, mc.Unit{Name: fmt.Sprintf("corrupt/k=%d/%d-%d", k, lo, hi), Serial: true, Weight: 30, Run: func(r *mc.Recorder) {
					sub := cfgs
					if !thorough {
						sub = []c20cfg{cfgs[0], cfgs[2], cfgs[3], cfgs[11]}
					}
					for i := lo; i < hi; i++ {
						rep := append(append([]byte{}, doc[:i]...), '<')
						rep = append(rep, doc[i+1:]...)
						c20explore(r, c20stream{name: fmt.Sprintf("k=%d byte %d replaced by '<'", k, i), data: rep, want: es, tags: []string{"corrupt"}}, sub)
						del := append(append([]byte{}, doc[:i]...), doc[i+1:]...)
						c20explore(r, c20stream{name: fmt.Sprintf("k=%d byte %d deleted", k, i), data: del, want: es, tags: []string{"corrupt"}}, sub)
					}
				}})
			}
		}
		// gzip stream truncated
		if thorough || k == 1 {
			gz := c20gz(doc)
			step := 1
			if k == 3 {
				step = 7
			}
			us = append(us, mc.Unit{Name: fmt.Sprintf("gzip-truncate/k=%d", k), Serial: true, Weight: 100, Run: func(r *mc.Recorder) {
				for i := 0; i < len(gz); i += step {
					c20explore(r, c20stream{name: fmt.Sprintf("k=%d gzip stream truncated at byte %d of %d", k, i, len(gz)), data: gz[:i], gz: true, want: es, tags: []string{"gzip-truncated"}}, []c20cfg{cfgs[0], cfgs[2], cfgs[3]})
				}
			}})
		}
	}
	if thorough {
		us = append(us, mc.Unit{Name: "wellformed/k=200", Serial: true, Weight: 400, Run: func(r *mc.Recorder) {
			es := c20entries(200)
			doc := c20doc(es)
			// the default schedule and every single-preemption schedule
			st := mc.Explore(mc.Options{DevBound: 0, PreemptBound: 1, Prune: true, Deadline: r.TimeUp}, func(c *mc.Ctx) bool {
				out, res := c20exec(c, func() io.Reader { return bytes.NewReader(doc) }, false, 100, 100)
				if out.Cut {
					return true
				}
				return c20judge(r, "k=200 well-formed consumer=S", nil, c.Choices(), out, res, es, 200, true)
			})
			r.AddExplore(st, "k=200")
		}})
	}
	// the file wrapper with the channels it allocates itself, driven by the documented consumer
	// (entries to closure, then errors) on intact and damaged gzip files, every interleaving
	us = append(us, mc.Unit{Name: "read-file/schedules", Serial: true, Weight: 60, Run: func(r *mc.Recorder) {
		dir, err := os.MkdirTemp("", "c20r")
		if err != nil {
			panic(err)
		}
		defer os.RemoveAll(dir)
		es := c20entries(2)
		doc := c20doc(es)
		inside := bytes.Index(doc, []byte("</name>")) + 3 // inside the first entry
		second := bytes.LastIndex(doc, []byte("<sequence")) + 20
		between := bytes.Index(doc, []byte("</entry>\n")) + 9
		mism := bytes.Replace(doc, []byte("</accession>"), []byte("</acession>"), 1)
		files := []struct {
			name string
			data []byte
		}{{"intact", doc}, {"cut inside the first entry", doc[:inside]}, {"cut inside the second entry", doc[:second]}, {"cut between the entries", doc[:between]}, {"mismatched end tag in the first entry", mism}}
		files = append(files, struct {
			name string
			data []byte
		}{"intact, written as two gzip members", doc})
		for fi, f := range files {
			path := filepath.Join(dir, fmt.Sprintf("f%d.xml.gz", fi))
			gzbytes := c20gz(f.data)
			if strings.Contains(f.name, "two gzip members") {
				cut := bytes.Index(f.data, []byte("<name>")) + 2 // the member boundary falls inside the first entry
				gzbytes = append(c20gz(f.data[:cut]), c20gz(f.data[cut:])...)
			}
			os.WriteFile(path, gzbytes, 0o644)
			complete, wf := c20scan(bytes.NewReader(f.data))
			st := mc.Explore(mc.Options{DevBound: 0, PreemptBound: -1, Prune: true, Deadline: r.TimeUp}, func(c *mc.Ctx) bool {
				var res c20run
				var rerr error
				out := sched.Run(c, sched.Options{Horizon: 10000, MaxTasks: 100}, func() {
					entries, errs, err := uniprot.Read(path)
					if err != nil {
						rerr = err
						return
					}
					for {
						e, ok := sched.Recv2(entries)
						if !ok {
							res.closedE = true
							break
						}
						res.got = append(res.got, e)
					}
					for {
						_, ok := sched.Recv2(errs)
						if !ok {
							res.closedR = true
							break
						}
						res.nerr++
					}
				})
				if out.Cut {
					return true
				}
				cas := "uniprot.Read of a gzip file, " + f.name + ", consumer S with Read's own channels"
				if rerr != nil {
					r.Fail(mc.Failure{Clause: "entries", Case: cas, Expected: "channels", Got: "error: " + rerr.Error()})
					return false
				}
				return c20judge(r, cas, []string{"read"}, c.Choices(), out, res, es, complete, wf)
			})
			r.AddExplore(st, "read-file "+f.name)
			r.AddNontrivial(int64(st.Execs))
		}
		r.Bound("read-file", "uniprot.Read on 5 gzip files (intact, cut inside the first / second entry, cut between entries, mismatched end tag), documented consumer, all interleavings")
	}})
	// entries that repeat or resemble their neighbours: the same entry k times, neighbours sharing the accession and
	// differing in the sequence, neighbours identical but for the name: exactly the k entry elements come back
	us = append(us, mc.Unit{Name: "repeated-entries", Serial: true, Weight: 20, Run: func(r *mc.Recorder) {
		var cnt int64
		base := c20entries(3)
		var lists [][]c20entry
		for k := 2; k <= 5; k++ {
			var same []c20entry
			for i := 0; i < k; i++ {
				same = append(same, base[0])
			}
			lists = append(lists, same)
		}
		alt := base[0]
		alt.seq = "MKVLAAAA"
		alt2 := base[0]
		alt2.names = []string{"OTHER_NAME"}
		lists = append(lists, []c20entry{base[0], alt, base[0]}, []c20entry{base[0], alt2}, []c20entry{base[1], base[0], base[0], base[2], base[2]},
			[]c20entry{alt, alt2, base[0], alt}, []c20entry{base[2], base[1], base[0]})
		for li, es := range lists {
			doc := string(c20doc(es))
			entries, errs := make(chan uniprot.Entry, 10), make(chan error, 10)
			go uniprot.Parse(strings.NewReader(doc), entries, errs)
			var got []uniprot.Entry
			for e := range entries {
				got = append(got, e)
			}
			nerr := 0
			for range errs {
				nerr++
			}
			cnt++
			ok := nerr == 0 && len(got) == len(es)
			for i := 0; ok && i < len(es); i++ {
				ok = c20same(got[i], es[i])
			}
			if !ok {
				r.Failf("entries", fmt.Sprintf("well-formed document %d with %d entries that repeat or resemble their neighbours", li, len(es)), []string{"repeated"}, fmt.Sprintf("%d entries in order, no error", len(es)), fmt.Sprint(c20show(got), " errors=", nerr))
			}
		}
		r.Eval(cnt)
		r.AddStates(cnt)
		r.AddTransitions(cnt)
		r.AddNontrivial(cnt)
		r.Bound("repeated-entries", "9 documents: one entry repeated 2..5 times; neighbours equal in accession and differing in sequence or name; mixed orders")
	}})
	// every calendar day of eight years (century and leap-year boundaries) as the created, modified and
	// sequence-modified date of the first of two entries: both entries are delivered complete, no error
	us = append(us, mc.Unit{Name: "dates", Serial: true, Weight: 60, Run: func(r *mc.Recorder) {
		var cnt int64
		es := c20entries(2)
		base := string(c20doc(es))
		for _, y := range []int{1900, 1999, 2000, 2001, 2004, 2023, 2024, 2100} {
			for d := time.Date(y, 1, 1, 0, 0, 0, 0, time.UTC); d.Year() == y; d = d.AddDate(0, 0, 1) {
				date := d.Format("2006-01-02")
				for attr := 0; attr < 3; attr++ {
					doc := base
					switch attr {
					case 0:
						doc = strings.Replace(doc, `created="2000-05-30"`, `created="`+date+`"`, 1)
					case 1:
						doc = strings.Replace(doc, `modified="2019-07-03"`, `modified="`+date+`"`, 1)
					case 2:
						doc = strings.Replace(doc, `checksum="X" modified="2000-05-30"`, `checksum="X" modified="`+date+`"`, 1)
					}
					entries, errs := make(chan uniprot.Entry, 10), make(chan error, 10)
					go uniprot.Parse(strings.NewReader(doc), entries, errs)
					var got []uniprot.Entry
					for e := range entries {
						got = append(got, e)
					}
					nerr := 0
					for range errs {
						nerr++
					}
					cnt++
					if nerr != 0 || len(got) != 2 || !c20same(got[0], es[0]) || !c20same(got[1], es[1]) {
						r.Failf("entries", fmt.Sprintf("well-formed document whose first entry carries the date %s as %s", date, []string{"created", "modified", "sequence modified"}[attr]), []string{"dates"}, "2 complete entries, no error", fmt.Sprint(c20show(got), " errors=", nerr))
					}
				}
			}
		}
		r.Eval(cnt)
		r.AddStates(cnt)
		r.AddTransitions(cnt)
		r.AddNontrivial(cnt)
		r.Bound("dates", "every day of 1900, 1999, 2000, 2001, 2004, 2023, 2024, 2100 x 3 date attributes")
	}})
	// the file wrapper free-running (its own goroutines and channels) under several GOMAXPROCS settings: gzip files cut
	// at every byte of their tail and at every 37th byte before, and with every bit of the gzip trailer flipped
	us = append(us, mc.Unit{Name: "read-file/damaged-gzip", Serial: true, Weight: 60, Run: func(r *mc.Recorder) {
		dir, err := os.MkdirTemp("", "c20d")
		if err != nil {
			panic(err)
		}
		defer os.RemoveAll(dir)
		var cnt int64
		es := c20entries(3)
		doc := c20doc(es)
		gz := c20gz(doc)
		type variant struct {
			what string
			data []byte
		}
		var vs []variant
		for cut := len(gz) - 1; cut > 0; cut-- {
			if cut < len(gz)-48 && cut%37 != 0 {
				continue
			}
			vs = append(vs, variant{fmt.Sprintf("cut after %d of %d compressed bytes", cut, len(gz)), gz[:cut]})
		}
		for i := len(gz) - 8; i < len(gz); i++ {
			for bit := 0; bit < 8; bit++ {
				d := append([]byte(nil), gz...)
				d[i] ^= 1 << bit
				vs = append(vs, variant{fmt.Sprintf("bit %d of trailer byte %d flipped", bit, i-(len(gz)-8)), d})
			}
		}
		withProcs([]int{1, 4}, func(procs int) {
			for vi, v := range vs {
				path := filepath.Join(dir, fmt.Sprintf("v%d.xml.gz", vi))
				os.WriteFile(path, v.data, 0o644)
				// what an independent decompression of the same bytes yields
				var plain []byte
				var gzerr error
				if zr, err := gzip.NewReader(bytes.NewReader(v.data)); err != nil {
					gzerr = err
				} else {
					plain, gzerr = io.ReadAll(zr)
				}
				complete, _ := c20scan(bytes.NewReader(plain))
				type result struct {
					got              []uniprot.Entry
					nerr             int
					closedE, closedR bool
					rerr             error
					p                string
				}
				done := make(chan result, 1)
				go func() {
					var res result
					res.p = catch(func() {
						entries, errs, err := uniprot.Read(path)
						if err != nil {
							res.rerr = err
							return
						}
						for e := range entries {
							res.got = append(res.got, e)
						}
						res.closedE = true
						for range errs {
							res.nerr++
						}
						res.closedR = true
					})
					done <- res
				}()
				var res result
				select {
				case res = <-done:
				case <-time.After(10 * time.Minute):
					r.Failf("terminates-closed", fmt.Sprintf("uniprot.Read of a gzip file, %s, GOMAXPROCS=%d", v.what, procs), []string{"read", "damaged-gzip"}, "both channels closed", "still running after 10 minutes")
					return
				}
				cnt++
				cas := fmt.Sprintf("uniprot.Read of a gzip file of 3 entries, %s, GOMAXPROCS=%d", v.what, procs)
				if res.p != "" {
					r.Failf("no-panic", cas, []string{"read", "damaged-gzip"}, "entries and errors", "panic: "+res.p)
					continue
				}
				if res.rerr != nil {
					continue // the header itself is damaged: Read reports it at once
				}
				if gzerr == nil {
					continue // damage that gzip does not notice
				}
				okEntries := len(res.got) >= complete
				for i := 0; okEntries && i < complete; i++ {
					okEntries = c20same(res.got[i], es[i])
				}
				if !okEntries {
					r.Failf("entries-before-damage", cas, []string{"read", "damaged-gzip"}, fmt.Sprintf("the %d entries that precede the damage", complete), c20show(res.got))
				}
				if res.nerr == 0 {
					r.Failf("error-reported", cas, []string{"read", "damaged-gzip"}, "at least one error ("+gzerr.Error()+")", "no error")
				}
			}
		})
		r.Eval(cnt)
		r.AddStates(cnt)
		r.AddTransitions(cnt)
		r.AddNontrivial(cnt)
		r.Bound("read-file/damaged-gzip", fmt.Sprintf("%d damaged gzip files (cut at each of the last 48 bytes and every 37th before; each of the 64 trailer bits flipped) x GOMAXPROCS 1 and 4, free-running", len(vs)))
	}})
	// the file wrapper
	us = append(us, mc.Unit{Name: "read-file", Serial: true, Weight: 5, Run: func(r *mc.Recorder) {
		dir, err := os.MkdirTemp("", "c20")
		if err != nil {
			panic(err)
		}
		defer os.RemoveAll(dir)
		es := c20entries(2)
		path := filepath.Join(dir, "u.xml.gz")
		os.WriteFile(path, c20gz(c20doc(es)), 0o644)
		var got []uniprot.Entry
		nerr := 0
		p := catch(func() {
			entries, errs, err := uniprot.Read(path)
			if err != nil {
				panic(err)
			}
			for e := range entries {
				got = append(got, e)
			}
			for range errs {
				nerr++
			}
		})
		if p != "" || nerr != 0 || len(got) != 2 || !c20same(got[0], es[0]) || !c20same(got[1], es[1]) {
			r.Failf("entries", "Read of a gzip file with 2 entries", nil, "2 entries, no error", fmt.Sprint(c20show(got), " errors=", nerr, " ", p))
		}
		r.Eval(1)
	}})
	return us
}

func init() {
	mc.Register(&mc.Harness{ID: "C20", Units: c20units,
		Rule:   "streams: documents with k entries, intact, truncated at EVERY byte offset, with one byte replaced/deleted at every offset, gzip-truncated; for each stream and each consumer/capacity configuration every interleaving of parser and consumer tasks is executed (states = distinct scheduler states); non-trivial = executions on damaged streams",
		Assume: []string{"well-formedness and the number of complete entries before the damage are decided by an independent pass of encoding/xml over the same bytes", "a partial entry delivered after the complete ones is tolerated (the statement is silent)", "interleavings at channel-operation granularity"}})
}
