//go:build c09

package props

import (
	"fmt"
	"os"
	"sort"
	"strings"

	"github.com/TimothyStiles/poly/clone"

	"verif/mc"
	"verif/sched"
)

// ---------------------------------------------------------------------------
// Oracle: rings of compatible fragments, enumerated by brute force.

var c9comp = map[byte]byte{'A': 'T', 'C': 'G', 'G': 'C', 'T': 'A'}

func c9rc(s string) string {
	o := make([]byte, len(s))
	for i := 0; i < len(s); i++ {
		o[len(s)-1-i] = c9comp[s[i]]
	}
	return string(o)
}

func c9canon(s string) string {
	best := ""
	for _, x := range []string{s, c9rc(s)} {
		d := x + x
		for k := 0; k < len(x); k++ {
			if r := d[k : k+len(x)]; best == "" || r < best {
				best = r
			}
		}
	}
	return best
}

type c9frag struct{ fwd, body, rev string }

func (f c9frag) flip() c9frag { return c9frag{c9rc(f.rev), c9rc(f.body), c9rc(f.fwd)} }

// c9rings: every simple cycle (no junction overhang visited twice) through
// oriented fragments, as the set of canonical forms of the joined sequences.
func c9rings(frags []c9frag) map[string]bool {
	type edge struct {
		f   c9frag
		idx int
	}
	var edges []edge
	for i, f := range frags {
		edges = append(edges, edge{f, i}, edge{f.flip(), i})
	}
	out := map[string]bool{}
	var dfs func(start string, cur string, seq string, seen map[string]bool, used map[int]bool)
	dfs = func(start, cur, seq string, seen map[string]bool, used map[int]bool) {
		for _, e := range edges {
			if e.f.fwd != cur || used[e.idx] {
				continue
			}
			ns := seq + e.f.fwd + e.f.body
			if e.f.rev == start {
				out[c9canon(ns)] = true
				continue
			}
			if seen[e.f.rev] {
				continue
			}
			seen[e.f.rev] = true
			used[e.idx] = true
			dfs(start, e.f.rev, ns, seen, used)
			delete(seen, e.f.rev)
			delete(used, e.idx)
		}
	}
	for _, e := range edges {
		if e.f.fwd == e.f.rev {
			out[c9canon(e.f.fwd+e.f.body)] = true
			continue
		}
		dfs(e.f.fwd, e.f.rev, e.f.fwd+e.f.body, map[string]bool{e.f.fwd: true, e.f.rev: true}, map[int]bool{e.idx: true})
	}
	return out
}

var c9overhangs = []string{"AAGG", "ACTC", "GGTA", "CGAA", "TCAG", "ATCC", "CAGA", "GTGT"}

func init() {
	seen := map[string]bool{}
	for _, o := range c9overhangs {
		if o == c9rc(o) || seen[o] || seen[c9rc(o)] {
			panic("bad overhang list")
		}
		seen[o] = true
	}
}

func c9body(slot, alt int) string {
	// distinct, BsaI-site-free bodies; no body is a rotation or strand of another
	return "AC" + strings.Repeat("A", slot+1) + "C" + strings.Repeat("T", alt+1) + "CA"
}

// design: J junctions, alts[j] alternatives in slot j.
func c9design(alts []int) []c9frag {
	J := len(alts)
	var fr []c9frag
	for j := 0; j < J; j++ {
		for a := 0; a < alts[j]; a++ {
			fr = append(fr, c9frag{c9overhangs[j], c9body(j, a), c9overhangs[(j+1)%J]})
		}
	}
	return fr
}

func toClone(fr []c9frag) []clone.Fragment {
	out := make([]clone.Fragment, len(fr))
	for i, f := range fr {
		out[i] = clone.Fragment{Sequence: f.body, ForwardOverhang: f.fwd, ReverseOverhang: f.rev}
	}
	return out
}

func setStr(m map[string]bool) string {
	var k []string
	for s := range m {
		k = append(k, s)
	}
	sort.Strings(k)
	return strings.Join(k, " ")
}

// c9judge compares the constructs with the expected rings.
func c9judge(r *mc.Recorder, cas string, tags []string, choices []int, out sched.Outcome, parts []clone.Part, want map[string]bool) bool {
	fail := func(clause, exp, got string) {
		r.Fail(mc.Failure{Clause: clause, Case: cas, Tags: tags, Choices: choices, Expected: exp, Got: got})
	}
	if out.Horizon || out.Stuck {
		fail("terminates", "ligation terminates", out.String())
		return false
	}
	if len(out.Panics) > 0 {
		fail("no-panic", "no panic", out.String())
		return false
	}
	if out.Deadlock {
		fail("no-deadlock", "all tasks finish", out.String())
		return false
	}
	got := map[string]bool{}
	ok := true
	for _, p := range parts {
		c := c9canon(strings.ToUpper(p.Sequence))
		if got[c] {
			fail("no-duplicates", "each molecule once", "twice: "+p.Sequence)
			ok = false
		}
		got[c] = true
		if !p.Circular {
			fail("circular", "constructs are circular", "linear: "+p.Sequence)
			ok = false
		}
	}
	for c := range want {
		if !got[c] {
			fail("none-missing", setStr(want), setStr(got))
			ok = false
			break
		}
	}
	for c := range got {
		if !want[c] {
			fail("none-spurious", setStr(want), setStr(got))
			ok = false
			break
		}
	}
	return ok
}

// runLigate runs CircularLigate under the scheduler for one execution.
func runLigate(c *mc.Ctx, frags []clone.Fragment, opt sched.Options) (sched.Outcome, []clone.Part) {
	var parts []clone.Part
	out := sched.Run(c, opt, func() { parts = clone.CircularLigate(frags) })
	return out, parts
}

func permutations(n int, f func(p []int)) {
	p := make([]int, n)
	for i := range p {
		p[i] = i
	}
	var rec func(k int)
	rec = func(k int) {
		if k == n {
			f(p)
			return
		}
		for i := k; i < n; i++ {
			p[k], p[i] = p[i], p[k]
			rec(k + 1)
			p[k], p[i] = p[i], p[k]
		}
	}
	rec(0)
}

// ---------------------------------------------------------------------------

func c9inputUnits(tier string) []mc.Unit {
	var us []mc.Unit
	thorough := tier == "thorough"
	var designs [][]int
	maxJ := tier2(tier, 3, 6)
	var gen func(cur []int)
	gen = func(cur []int) {
		if len(cur) > 0 {
			sum, above := 0, 0
			for _, a := range cur {
				sum += a
				if a > 1 {
					above++
				}
			}
			if (!thorough && sum <= 4) || (thorough && above <= 2 && sum <= 8) {
				designs = append(designs, append([]int(nil), cur...))
			}
		}
		if len(cur) == maxJ {
			return
		}
		for a := 1; a <= 3; a++ {
			gen(append(cur, a))
		}
	}
	gen(nil)
	for _, d := range designs {
		d := d
		base := c9design(d)
		f := len(base)
		us = append(us, mc.Unit{Name: fmt.Sprintf("inputs/design=%v", d), Serial: true, Weight: (1 << f) * f, Run: func(r *mc.Recorder) {
			want := c9rings(base)
			exp := 1
			for _, a := range d {
				exp *= a
			}
			if len(d) == 1 {
				// a single junction: every alternative circularises on its own
				exp = d[0]
			}
			if len(want) != exp {
				panic(fmt.Sprintf("generator self-check: design %v has %d rings, expected %d", d, len(want), exp))
			}
			var cnt int64
			for mask := 0; mask < 1<<f; mask++ {
				fr := make([]c9frag, f)
				for i := range base {
					fr[i] = base[i]
					if mask&(1<<i) != 0 {
						fr[i] = base[i].flip()
					}
				}
				orders := func(g func(p []int)) {
					if f <= tier2(tier, 4, 5) {
						permutations(f, g)
						return
					}
					p := make([]int, f)
					for rot := 0; rot < f; rot++ {
						for i := range p {
							p[i] = (i + rot) % f
						}
						g(p)
						for i := range p {
							p[i] = (f - 1 - i + rot) % f
						}
						g(p)
					}
				}
				for _, decoy := range []int{0, 1} {
					orders(func(p []int) {
						in := make([]c9frag, 0, f+1)
						for _, i := range p {
							in = append(in, fr[i])
						}
						if decoy == 1 {
							// forward overhang on the ring, reverse overhang nowhere: a dead end
							in = append(in, c9frag{c9overhangs[0], "ACGGCA", "TTGC"})
						}
						cas := fmt.Sprintf("design=%v flipped=%b order=%v decoy=%d", d, mask, p, decoy)
						once(func(c *mc.Ctx) {
							out, parts := runLigate(c, toClone(in), sched.Options{Horizon: 5000, MaxTasks: 2000})
							c9judge(r, cas, []string{"inputs"}, nil, out, parts, want)
						})
						cnt++
						if cnt == 5 {
							r.Sample(cas + " -> " + fmt.Sprint(len(want)) + " ring(s): " + setStr(want))
						}
					})
				}
			}
			r.Eval(cnt)
			r.AddStates(cnt)
			r.AddTransitions(cnt)
			if f > 1 {
				r.AddNontrivial(cnt)
			}
			r.Bound("inputs", fmt.Sprintf("designs with J<=%d; all 2^f orientations; all f! input orders for small f; with and without a dead-end decoy", maxJ))
		}})
	}
	// full libraries: 3 alternatives in every slot (up to 729 plasmids and several thousand goroutines alive)
	for _, J := range []int{4, 5, 6} {
		J := J
		us = append(us, mc.Unit{Name: fmt.Sprintf("inputs/library=%dx3", J), Serial: true, Weight: 300 * (J - 3), Run: func(r *mc.Recorder) {
			d := make([]int, J)
			for i := range d {
				d[i] = 3
			}
			base := c9design(d)
			want := c9rings(base)
			if len(want) != int(pow(3, J)) {
				panic("generator self-check: library size")
			}
			var cnt int64
			for _, variant := range []int{0, 1} {
				in := append([]c9frag(nil), base...)
				if variant == 1 { // every second fragment flipped, input order reversed
					for i := range in {
						if i%2 == 1 {
							in[i] = in[i].flip()
						}
					}
					for i, j := 0, len(in)-1; i < j; i, j = i+1, j-1 {
						in[i], in[j] = in[j], in[i]
					}
				}
				for _, rr := range []bool{false, true} {
					if rr && J > 6 {
						continue
					}
					once(func(c *mc.Ctx) {
						out, parts := runLigate(c, toClone(in), sched.Options{Horizon: 3000000, MaxTasks: 200000, RoundRobin: rr})
						c9judge(r, fmt.Sprintf("library %d junctions x 3 alternatives, variant %d, round-robin schedule=%v", J, variant, rr), []string{"inputs"}, nil, out, parts, want)
					})
					cnt++
				}
			}
			r.Eval(cnt)
			r.AddStates(cnt)
			r.AddTransitions(cnt)
			r.AddNontrivial(cnt)
			r.Bound("inputs/libraries", "complete libraries of 4, 5 and 6 junctions x 3 alternatives (81, 243, 729 plasmids) on two extreme schedules (depth first: a spawned task runs to its end before its siblings; round robin: every live task advances in turn, several hundred tasks alive at once), as designed and with alternate fragments flipped in reversed input order")
		}})
	}
	// two disjoint rings in one pool; a ring plus a self-closing fragment
	us = append(us, mc.Unit{Name: "inputs/multi-ring", Serial: true, Weight: 50, Run: func(r *mc.Recorder) {
		var cnt int64
		a := []c9frag{{"AAGG", "ACAACTCA", "ACTC"}, {"ACTC", "ACAAACTCA", "AAGG"}}
		b := []c9frag{{"GGTA", "ACCTTCA", "CGAA"}, {"CGAA", "ACCCTTTCA", "GGTA"}}
		self := c9frag{"TCAG", "ACGTTTGCA", "TCAG"}
		pools := map[string][]c9frag{"two-rings": append(append([]c9frag{}, a...), b...), "ring+self": append(append([]c9frag{}, a...), self), "self-only": {self}, "empty": {}, "open-chain": {a[0]}}
		var names []string
		for n := range pools {
			names = append(names, n)
		}
		sort.Strings(names)
		for _, n := range names {
			p := pools[n]
			want := c9rings(p)
			permutations(len(p), func(pp []int) {
				in := make([]c9frag, len(p))
				for i, j := range pp {
					in[i] = p[j]
				}
				once(func(c *mc.Ctx) {
					out, parts := runLigate(c, toClone(in), sched.Options{Horizon: 5000, MaxTasks: 2000})
					c9judge(r, fmt.Sprintf("pool=%s order=%v", n, pp), []string{"inputs"}, nil, out, parts, want)
				})
				cnt++
			})
		}
		r.Eval(cnt)
		r.AddStates(cnt)
		r.AddTransitions(cnt)
		r.AddNontrivial(cnt)
	}})
	// fragments that are related to one another: alternatives whose inserts are reverse complements, rotations or
	// copies of each other, the same fragment supplied twice or in both orientations, a palindromic insert, the same
	// insert in two slots; every input order (pools of up to 5), depth-first and round-robin schedules
	us = append(us, mc.Unit{Name: "inputs/related-fragments", Serial: true, Weight: 80, Run: func(r *mc.Recorder) {
		var cnt int64
		o := c9overhangs
		x, y, z := "ACAAGCTCA", "ACTTCGGACA", "ACGGATTTCA"
		pal := "ACGAATTCGT" // its own reverse complement
		ring := func(b0, b1 string) []c9frag { return []c9frag{{o[0], b0, o[1]}, {o[1], b1, o[0]}} }
		pools := []struct {
			name string
			fr   []c9frag
		}{
			{"alternatives that are reverse complements", append(ring(x, y), c9frag{o[0], c9rc(x), o[1]})},
			{"alternatives that are rotations", append(ring(x, y), c9frag{o[0], x[3:] + x[:3], o[1]})},
			{"the same fragment twice", append(ring(x, y), c9frag{o[0], x, o[1]})},
			{"a fragment and its flipped copy", append(ring(x, y), c9frag{o[0], x, o[1]}.flip())},
			{"every fragment twice", append(ring(x, y), ring(x, y)...)},
			{"palindromic insert", ring(pal, y)},
			{"palindromic insert and its copy", append(ring(pal, y), c9frag{o[0], pal, o[1]})},
			{"the same insert in both slots", ring(x, x)},
			{"inserts reverse complementary across slots", ring(x, c9rc(x))},
			{"three slots, same insert twice", []c9frag{{o[0], x, o[1]}, {o[1], y, o[2]}, {o[2], x, o[0]}}},
			{"three slots, alternatives reverse complementary, one duplicate", []c9frag{{o[0], x, o[1]}, {o[0], c9rc(x), o[1]}, {o[1], y, o[2]}, {o[2], z, o[0]}, {o[1], y, o[2]}}},
			{"two slots, three alternatives two of them equal", []c9frag{{o[0], x, o[1]}, {o[0], z, o[1]}, {o[0], x, o[1]}, {o[1], y, o[0]}}},
		}
		for _, p := range pools {
			want := c9rings(p.fr)
			permutations(len(p.fr), func(pp []int) {
				in := make([]c9frag, len(p.fr))
				for i, j := range pp {
					in[i] = p.fr[j]
				}
				for _, rr := range []bool{false, true} {
					once(func(c *mc.Ctx) {
						out, parts := runLigate(c, toClone(in), sched.Options{Horizon: 20000, MaxTasks: 5000, RoundRobin: rr})
						c9judge(r, fmt.Sprintf("pool=%s order=%v round-robin=%v", p.name, pp, rr), []string{"inputs", "related"}, nil, out, parts, want)
					})
					cnt++
				}
			})
			if r.Enough() {
				break
			}
		}
		r.Eval(cnt)
		r.AddStates(cnt)
		r.AddTransitions(cnt)
		r.AddNontrivial(cnt)
		r.Bound("inputs/related-fragments", fmt.Sprintf("%d pools of related fragments x every input order x 2 schedules", len(pools)))
	}})
	return us
}

// ---------------------------------------------------------------------------
// GoldenGate seam: parts carrying BsaI sites.

func c9part(f c9frag, circular bool, rot int) (clone.Part, bool) {
	// GGTCTC N ^ fwd body rev ^ N GAGACC
	core := "GGTCTC" + "A" + f.fwd + f.body + f.rev + "T" + "GAGACC"
	if !circular {
		return clone.Part{Sequence: "TTATTA" + core + "ATAATA", Circular: false}, true
	}
	s := core + "ATATTTATAAATTATA"
	rot = rot % len(s)
	return clone.Part{Sequence: s[rot:] + s[:rot], Circular: true}, true
}

func c9ggUnits(tier string) []mc.Unit {
	var us []mc.Unit
	type ggDesign struct {
		d     []int
		decoy bool
	}
	// single-junction designs (every alternative closes on itself) and a dead-end decoy part are included:
	// whatever GoldenGate does between digestion and ligation must neither lose nor add a plasmid
	for _, gd := range []ggDesign{{[]int{1, 1}, false}, {[]int{1, 1, 1}, false}, {[]int{2, 1}, false}, {[]int{1, 2, 1}, false},
		{[]int{1}, false}, {[]int{2}, false}, {[]int{3}, false}, {[]int{1}, true}, {[]int{2}, true}, {[]int{1, 1}, true}, {[]int{2, 1}, true}} {
		d, decoy := gd.d, gd.decoy
		name := fmt.Sprintf("goldengate/design=%v", d)
		if decoy {
			name += "+decoy"
		}
		us = append(us, mc.Unit{Name: name, Serial: true, Weight: 40, Run: func(r *mc.Recorder) {
			base := c9design(d)
			want := c9rings(base)
			if decoy {
				// forward overhang on the ring, reverse overhang nowhere: a dead end that joins no plasmid
				base = append(base, c9frag{c9overhangs[0], "ACGGCA", "TTGC"})
				if got := c9rings(base); setStr(got) != setStr(want) {
					panic("generator self-check: the decoy changes the expected rings")
				}
			}
			var cnt int64
			// carriers: all linear; then each part circular at every 7th rotation
			type variant struct {
				circ []bool
				rot  int
			}
			vars := []variant{{make([]bool, len(base)), 0}}
			for rot := 0; rot < 60; rot += 7 {
				for i := range base {
					c := make([]bool, len(base))
					c[i] = true
					vars = append(vars, variant{c, rot})
				}
				all := make([]bool, len(base))
				for i := range all {
					all[i] = true
				}
				vars = append(vars, variant{all, rot})
			}
			for _, v := range vars {
				for mask := 0; mask < 1<<len(base); mask++ {
					var parts []clone.Part
					upstream := false
					for i, f := range base {
						g := f
						if mask&(1<<i) != 0 {
							g = f.flip()
						}
						p, _ := c9part(g, v.circ[i], v.rot)
						// gate on C10: digestion of this carrier alone must give exactly the designed fragment
						var fr []clone.Fragment
						var err error
						if pn := catch(func() { fr, err = clone.CutWithEnzymeByName(p, true, "BsaI") }); pn != "" || err != nil || len(fr) != 1 ||
							fr[0].ForwardOverhang != g.fwd || fr[0].Sequence != g.body || fr[0].ReverseOverhang != g.rev {
							upstream = true
						}
						parts = append(parts, p)
					}
					if upstream {
						r.Skip(1)
						continue
					}
					cas := fmt.Sprintf("goldengate design=%v decoy=%v flipped=%b circular=%v rot=%d", d, decoy, mask, v.circ, v.rot)
					once(func(c *mc.Ctx) {
						var res []clone.Part
						var err error
						out := sched.Run(c, sched.Options{Horizon: 5000, MaxTasks: 2000}, func() { res, err = clone.GoldenGate(parts, "BsaI") })
						if err != nil {
							r.Failf("goldengate-error", cas, nil, "no error", err.Error())
							return
						}
						c9judge(r, cas, []string{"goldengate"}, nil, out, res, want)
					})
					cnt++
				}
			}
			r.Eval(cnt)
			r.AddStates(cnt)
			r.AddTransitions(cnt)
			r.AddNontrivial(cnt)
			r.Sample(fmt.Sprintf("GoldenGate(BsaI) on carriers of design %v decoy=%v (linear and circular at every 7th rotation, every orientation mask) -> %s", d, decoy, setStr(want)))
		}})
	}
	return us
}

// ---------------------------------------------------------------------------
// Schedules.

type c9pool struct {
	name  string
	frags []c9frag
	// preemption bound per tier; -1 = all interleavings
	quick, thorough int
}

func c9pools() []c9pool {
	two := c9design([]int{1, 1})
	three := c9design([]int{1, 1, 1})
	lib := c9design([]int{2, 1})
	fd := append([]c9frag{two[0], two[1].flip()}, c9frag{c9overhangs[0], "ACGGCA", "TTGC"})
	// the same two-fragment ring with bodies long enough for constructs of more than 128 bases
	long := []c9frag{{c9overhangs[0], "AC" + strings.Repeat("TTACATCATA", 7) + "CA", c9overhangs[1]}, {c9overhangs[1], "ACA" + strings.Repeat("TACTTACAAT", 7) + "CCA", c9overhangs[0]}}
	return []c9pool{
		{"2-ring", two, -1, -1},
		{"2-ring-long-bodies", long, -1, -1},
		{"2-ring-library", lib, 1, 2},
		{"2-ring-flipped+decoy", fd, -1, -1},
		{"3-ring", three, 1, 3},
	}
}

func c9schedUnits(tier string) []mc.Unit {
	var us []mc.Unit
	for _, p := range c9pools() {
		p := p
		bound := p.quick
		if tier == "thorough" {
			bound = p.thorough
		}
		us = append(us, mc.Unit{Name: "schedules/" + p.name, Serial: true, Weight: 2000, Run: func(r *mc.Recorder) {
			want := c9rings(p.frags)
			in := toClone(p.frags)
			sites := 0
			orders := map[string]bool{}
			st := mc.Explore(mc.Options{DevBound: 0, PreemptBound: bound, Prune: true, Deadline: r.TimeUp}, func(c *mc.Ctx) bool {
				out, parts := runLigate(c, in, sched.Options{Horizon: 5000, MaxTasks: 500, KeyRunning: bound >= 0})
				if out.Cut {
					return true
				}
				if out.Steps > sites {
					sites = out.Steps
				}
				var obs []string
				for _, q := range parts {
					obs = append(obs, q.Sequence)
				}
				o := out.String() + "|" + strings.Join(obs, ",")
				r.Outcome(p.name + o)
				orders[o] = true
				c9judge(r, fmt.Sprintf("pool=%s schedule=%v", p.name, c.Choices()), []string{"schedule", p.name}, c.Choices(), out, parts, want)
				if out.Stuck {
					return false
				}
				return !r.Enough()
			})
			r.AddExplore(st, "schedules/"+p.name)
			r.AddNontrivial(int64(st.Execs))
			bs := "all interleavings (no preemption bound), visited-state pruning"
			if bound >= 0 {
				bs = fmt.Sprintf("all schedules with at most %d preemptions, visited-state pruning", bound)
			}
			r.Bound("schedules/"+p.name, fmt.Sprintf("%s; %d tasks; %d executions, %d states, longest %d steps, %d distinct observable outcomes", bs, 2*len(p.frags)+2, st.Execs, st.States, sites, len(orders)))
			if st.Execs > 1 && len(orders) < 2 && len(want) > 1 {
				r.Cap("vacuous: a single observable outcome over all schedules of " + p.name)
			}
			r.Sample(fmt.Sprintf("pool %s: %d fragments, CircularLigate under the controlled scheduler, expected rings %s", p.name, len(p.frags), setStr(want)))
		}})
	}
	return us
}

// ---------------------------------------------------------------------------
// Termination: pools whose overhangs close a cycle that excludes a seed.

func c9termUnits(tier string) []mc.Unit {
	ring := c9design([]int{1, 1})
	pools := map[string][]c9frag{
		// decoy enters a 2-cycle that never returns to the decoy's own forward overhang
		"decoy-into-ring": append(append([]c9frag{}, ring...), c9frag{"GGTA", "ACGGGCA", c9overhangs[0]}),
		// ring plus a 2-cycle reachable from it
		"ring+side-cycle": append(c9design([]int{1, 1, 1}), c9frag{"GGTA", "ACGTGCA", "ACTC"}),
		// two disjoint rings sharing no overhang
		"two-disjoint-rings": {{"AAGG", "ACAACTCA", "ACTC"}, {"ACTC", "ACAAACTCA", "AAGG"}, {"GGTA", "ACCTTCA", "CGAA"}, {"CGAA", "ACCCTTTCA", "GGTA"}},
	}
	// ring plus a self-closing fragment sitting on one of the ring's junctions
	pools["ring+self-loop-on-junction"] = append(append([]c9frag{}, ring...), c9frag{c9overhangs[1], "ACGTTGCA", c9overhangs[1]})
	names := []string{"decoy-into-ring", "ring+self-loop-on-junction", "two-disjoint-rings"}
	if tier == "thorough" {
		names = append(names, "ring+side-cycle")
	}
	var us []mc.Unit
	for _, n := range names {
		n := n
		us = append(us, mc.Unit{Name: "termination/" + n, Serial: true, Weight: 300, Run: func(r *mc.Recorder) {
			p := pools[n]
			want := c9rings(p)
			st := mc.Explore(mc.Options{DevBound: 0, PreemptBound: 0, Prune: true, MaxExecs: tier2(tier, 200000, 2000000), Deadline: r.TimeUp}, func(c *mc.Ctx) bool {
				out, parts := runLigate(c, toClone(p), sched.Options{Horizon: 2000, MaxTasks: 500, KeyRunning: true})
				if out.Cut {
					return true
				}
				return c9judge(r, fmt.Sprintf("pool=%s", n), []string{"termination", n}, c.Choices(), out, parts, want)
			})
			if !st.Exhaustive && r.FailCount == 0 {
				r.AddExplore(st, "termination/"+n)
			} else {
				st.Exhaustive = true
				r.AddExplore(st, "termination/"+n)
			}
			r.AddNontrivial(int64(st.Execs))
			// every orientation mask of the same pool on the default schedule (divergence does not depend on the schedule)
			var masks int64
			for mask := 1; mask < 1<<len(p); mask++ {
				fr := make([]c9frag, len(p))
				for i := range p {
					fr[i] = p[i]
					if mask&(1<<i) != 0 {
						fr[i] = p[i].flip()
					}
				}
				once(func(c *mc.Ctx) {
					out, parts := runLigate(c, toClone(fr), sched.Options{Horizon: 2000, MaxTasks: 500})
					c9judge(r, fmt.Sprintf("pool=%s flipped=%b", n, mask), []string{"termination", n}, nil, out, parts, want)
				})
				masks++
			}
			r.Eval(masks)
			r.AddStates(masks)
			r.AddTransitions(masks)
			r.Bound("termination/"+n, fmt.Sprintf("all non-preemptive schedules of the pool as designed (%d executions) + every orientation mask on the default schedule (%d); horizon 2000 steps / 500 tasks", st.Execs, masks))
			r.Sample(fmt.Sprintf("pool %s (%d fragments): overhang cycle excluding a seed; expected rings: %s", n, len(p), setStr(want)))
		}})
	}
	return us
}

// c9prefixes enumerates the distinct choice prefixes of length depth of the pool's schedule tree
// (each becomes the root of one unit, explored by its own worker with its own visited set).
func c9prefixes(frags []clone.Fragment, depth int) [][]int {
	var out [][]int
	seen := map[string]bool{}
	var rec func(prefix []int)
	rec = func(prefix []int) {
		var pts []mc.Point
		mc.Explore(mc.Options{DevBound: 0, PreemptBound: -1, MaxExecs: 1, Root: prefix}, func(c *mc.Ctx) bool {
			runLigate(c, frags, sched.Options{Horizon: 5000, MaxTasks: 500})
			pts = append([]mc.Point(nil), c.Points...)
			return false
		})
		if len(prefix) == depth || len(pts) <= len(prefix) {
			k := fmt.Sprint(prefix)
			if !seen[k] {
				seen[k] = true
				out = append(out, append([]int(nil), prefix...))
			}
			return
		}
		p := pts[len(prefix)]
		for alt := 0; alt < p.N; alt++ {
			rec(append(append([]int(nil), prefix...), alt))
		}
	}
	rec(nil)
	return out
}

func c9unboundedUnits(tier string) []mc.Unit {
	// Measured: the 54 prefix units each ran more than 6*10^5 executions in 4 minutes without finishing their
	// subtree, so the unbounded 3-ring is out of reach; the units are only built on request (C09_UNBOUNDED=1).
	if os.Getenv("C09_UNBOUNDED") == "" {
		return nil
	}
	three := c9design([]int{1, 1, 1})
	in := toClone(three)
	want := c9rings(three)
	var us []mc.Unit
	for pi, pre := range c9prefixes(in, 4) {
		pre := pre
		us = append(us, mc.Unit{Name: fmt.Sprintf("schedules/3-ring-all-interleavings/prefix=%d", pi), Serial: true, Weight: 3000, Run: func(r *mc.Recorder) {
			st := mc.Explore(mc.Options{DevBound: 0, PreemptBound: -1, Prune: true, Deadline: r.TimeUp, Root: pre}, func(c *mc.Ctx) bool {
				out, parts := runLigate(c, in, sched.Options{Horizon: 5000, MaxTasks: 500})
				if out.Cut {
					return true
				}
				c9judge(r, fmt.Sprintf("pool=3-ring schedule=%v", c.Choices()), []string{"schedule", "3-ring"}, c.Choices(), out, parts, want)
				return !r.Enough() && !out.Stuck
			})
			r.AddExplore(st, fmt.Sprintf("3-ring below prefix %v", pre))
			r.AddNontrivial(int64(st.Execs))
			r.Bound("schedules/3-ring-all-interleavings", "ALL interleavings of the 3-ring (11 tasks), no preemption bound, split into one unit per schedule prefix of length 4, visited-state pruning inside each unit")
		}})
	}
	return us
}

func c09units(tier string) []mc.Unit {
	var us []mc.Unit
	us = append(us, c9inputUnits(tier)...)
	us = append(us, c9ggUnits(tier)...)
	us = append(us, c9schedUnits(tier)...)
	us = append(us, c9unboundedUnits(tier)...)
	us = append(us, c9termUnits(tier)...)
	return us
}

func init() {
	mc.Register(&mc.Harness{ID: "C09", Units: c09units,
		Rule: "inputs: distinct (design, orientation mask, input order, decoy) pools, each one execution; schedules: every interleaving of the goroutines of CircularLigate at channel/WaitGroup/spawn granularity within the stated preemption bound (states = distinct scheduler states); non-trivial = pools with more than one fragment / every schedule execution",
		Assume: []string{"interleavings at channel, WaitGroup and goroutine-spawn granularity; plain memory accesses between those points are not interleaved (the separate -race pass looks for unsynchronised accesses)",
			"the simple-cycle ring enumerator of the oracle", "GoldenGate cases whose single-part digestion deviates from the designed fragment are counted as skipped_upstream (C10)"}})
}
