//go:build c16

package props

import (
	"encoding/json"
	"fmt"
	"os"
	"path/filepath"
	"reflect"
	"sort"
	"strings"

	"github.com/TimothyStiles/poly/io/rebase"

	"verif/mc"
)

type c16rec struct {
	name, iso, site, meth, org, src, supp, ref string
	extraRef                                   int
}

var c16suppliers = []struct{ letter, name string }{
	{"B", "Life Technologies (3/21)"}, {"C", "Minotech Biotechnology (3/21)"}, {"E", "Agilent Technologies (8/20)"},
	{"I", "SibEnzyme Ltd. (3/21)"}, {"J", "Nippon Gene Co., Ltd. (3/21)"}, {"K", "Takara Bio Inc. (6/18)"},
	{"M", "Roche Applied Science (4/18)"}, {"N", "New England Biolabs (3/21)"}, {"O", "Toyobo Biochemicals (8/14)"},
	{"Q", "Molecular Biology Resources - CHIMERx (3/21)"}, {"R", "Promega Corporation (11/20)"}, {"S", "Sigma Chemical Corporation (3/21)"},
	{"V", "Vivantis Technologies (1/18)"}, {"X", "EURx Ltd. (1/21)"}, {"Y", "SinaClon BioScience Co. (1/18)"},
}

const c16realHeader = `REBASE version 104                                              withrefm.104

    =-=-=-=-=-=-=-=-=-=-=-=-=-=-=-=-=-=-=-=-=-=-=-=-=-=-=-=-=-=-=-=-=-=
    REBASE, The Restriction Enzyme Database   http://rebase.neb.com
    Copyright (c)  Dr. Richard J. Roberts, 2021.   All rights reserved.
    =-=-=-=-=-=-=-=-=-=-=-=-=-=-=-=-=-=-=-=-=-=-=-=-=-=-=-=-=-=-=-=-=-=

Rich Roberts                                                    Mar 31 2021

`

const c16fieldProse = `<ENZYME NAME>   Restriction enzyme name.
<ISOSCHIZOMERS> Other enzymes with this specificity.
<RECOGNITION SEQUENCE>
                These are written from 5' to 3', only one strand being given.
<COMMERCIAL AVAILABILITY>
                Each commercial source of restriction enzymes and/or methylases
                listed in REBASE is assigned a single character abbreviation
                code.  For example:

                K        Takara (1/98)
                M        Boehringer Mannheim (10/97)

<REFERENCES>only the primary references for the isolation and/or purification

`

// supplier table variants: the same letters can name different suppliers in different listings
func c16table(variant int) []struct{ letter, name string } {
	switch variant {
	case 1:
		out := make([]struct{ letter, name string }, len(c16suppliers))
		for i, s := range c16suppliers {
			o := c16suppliers[len(c16suppliers)-1-i]
			out[i] = struct{ letter, name string }{o.letter, "Renamed " + s.name}
		}
		return out
	case 2:
		return append([]struct{ letter, name string }{{"Z", "Zymo Research (1/22)"}}, c16suppliers[:6]...)
	case 3: // neither ascending nor descending: even positions first, then odd ones
		var out []struct{ letter, name string }
		for i := 0; i < len(c16suppliers); i += 2 {
			out = append(out, c16suppliers[i])
		}
		for i := 1; i < len(c16suppliers); i += 2 {
			out = append(out, c16suppliers[i])
		}
		return out
	case 4: // several letters name one and the same supplier (a company listed under its old and new codes)
		out := make([]struct{ letter, name string }, len(c16suppliers))
		for i, s := range c16suppliers {
			out[i] = struct{ letter, name string }{s.letter, c16suppliers[i/3*3].name}
		}
		return out
	}
	return c16suppliers
}

type c16layout struct {
	table   int
	header  int // 0 none, 1 real header, 2 real header + field prose
	tabs    bool
	blank   bool // blank line between records
	finalNL bool
}

func c16write(recs []c16rec, l c16layout) []byte {
	var b strings.Builder
	switch l.header {
	case 1:
		b.WriteString(c16realHeader)
	case 2:
		b.WriteString(c16realHeader + c16fieldProse)
	}
	b.WriteString("\nREBASE codes for commercial sources of enzymes\n\n")
	indent := strings.Repeat(" ", 16)
	if l.tabs {
		indent = "\t\t"
	}
	for _, s := range c16table(l.table) {
		b.WriteString(indent + s.letter + "        " + s.name + "\n")
	}
	b.WriteString("\n")
	for i, r := range recs {
		fmt.Fprintf(&b, "<1>%s\n<2>%s\n<3>%s\n<4>%s\n<5>%s\n<6>%s\n<7>%s\n<8>%s\n", r.name, r.iso, r.site, r.meth, r.org, r.src, r.supp, r.ref)
		for k := 0; k < r.extraRef; k++ {
			fmt.Fprintf(&b, "Second, A., Author, B., (19%d) J. Mol. Biol., vol. %d, pp. 1-2.\n", 80+k, k+1)
		}
		if l.blank || i == len(recs)-1 {
			b.WriteString("\n")
		}
	}
	out := b.String()
	if !l.finalNL {
		out = strings.TrimRight(out, "\n")
	}
	return []byte(out)
}

func c16check(r *mc.Recorder, cas string, tags []string, recs []c16rec, got map[string]rebase.Enzyme, tableVariant ...int) {
	fail := func(clause, exp, g string) { r.Failf(clause, cas, tags, exp, g) }
	if len(got) != len(recs) {
		var names []string
		for n := range got {
			names = append(names, n)
		}
		sort.Strings(names)
		fail("one-entry-per-record", fmt.Sprint(len(recs), " entries"), fmt.Sprint(len(got), " entries: ", names))
		return
	}
	table := map[string]string{}
	tv := 0
	if len(tableVariant) > 0 {
		tv = tableVariant[0]
	}
	for _, s := range c16table(tv) {
		table[s.letter] = s.name
	}
	for _, rec := range recs {
		e, ok := got[rec.name]
		if !ok {
			fail("keyed-by-name", "entry "+rec.name, "missing")
			continue
		}
		chk := func(field, want, g string) {
			if want != g {
				fail("field-"+field, fmt.Sprintf("%s.%s = %q", rec.name, field, want), fmt.Sprintf("%q", g))
			}
		}
		chk("name", rec.name, e.Name)
		chk("isoschizomers", rec.iso, strings.Join(e.Isoschizomers, ","))
		chk("recognition-sequence", rec.site, e.RecognitionSequence)
		chk("methylation-site", rec.meth, e.MethylationSite)
		chk("organism", rec.org, e.MicroOrganism)
		chk("source", rec.src, e.Source)
		chk("reference", rec.ref, e.References)
		var want []string
		for _, ch := range rec.supp {
			want = append(want, table[string(ch)])
		}
		if strings.Join(want, "|") != strings.Join(e.CommercialAvailability, "|") || len(want) != len(e.CommercialAvailability) {
			fail("suppliers-decoded", fmt.Sprintf("%s suppliers %q = %q", rec.name, rec.supp, want), fmt.Sprintf("%q", e.CommercialAvailability))
		}
	}
	// the JSON export parses back to the same map
	var back map[string]rebase.Enzyme
	var js []byte
	if p := catch(func() { js = rebase.Export(got) }); p != "" {
		fail("export", "JSON", "panic: "+p)
		return
	}
	if err := json.Unmarshal(js, &back); err != nil {
		fail("export", "valid JSON", err.Error())
		return
	}
	// "the same map": compared as Go values, so a list that was absent (nil) must not come back empty and vice versa
	if !reflect.DeepEqual(back, got) {
		what := fmt.Sprint(back)
		if reflect.DeepEqual(norm16(back), norm16(got)) {
			what = "equal but for absent (nil) lists that came back as empty ones, or the reverse"
		}
		fail("export", fmt.Sprint(got), what)
	}
}

// norm16 identifies nil and empty slices (used to word the report).
func norm16(m map[string]rebase.Enzyme) map[string]rebase.Enzyme {
	o := map[string]rebase.Enzyme{}
	for k, e := range m {
		if len(e.Isoschizomers) == 0 {
			e.Isoschizomers = nil
		}
		if len(e.CommercialAvailability) == 0 {
			e.CommercialAvailability = nil
		}
		o[k] = e
	}
	return o
}

func c16rec0(i int) c16rec {
	return c16rec{
		name: []string{"AaaI", "AarI", "M.BsuBI", "I-AabMI"}[i%4] + map[bool]string{true: "", false: fmt.Sprint(i)}[i < 4],
		iso:  "XmaIII,BseX3I,EagI", site: "C^GGCCG", meth: "4(5)", org: "Acetobacter aceti ss aceti", src: "M. Fukaya", supp: "BN",
		ref: "Tagami, H., Tayama, K., (1988) FEMS Microbiol. Lett., vol. 56, pp. 161-166.",
	}
}

func c16units(tier string) []mc.Unit {
	dev := tier2(tier, 2, 3)
	var us []mc.Unit
	// units: by number of records
	counts := []int{0, 1, 2, 3}
	for _, n := range counts {
		n := n
		us = append(us, mc.Unit{Name: fmt.Sprintf("records=%d", n), Weight: 10 * (n + 1), Run: func(r *mc.Recorder) {
			var cnt, nt int64
			st := mc.Explore(mc.Options{DevBound: dev, PreemptBound: -1}, func(c *mc.Ctx) bool {
				var l c16layout
				l.header = c.Dev("header", 3)
				l.tabs = c.Dev("tabs", 2) == 1
				l.blank = c.Dev("blank-between", 2) == 0
				l.finalNL = c.Dev("final-newline", 2) == 0
				l.table = c.Dev("supplier-table", 3)
				recs := make([]c16rec, n)
				var tags []string
				if !l.tabs {
					tags = append(tags, "indent=spaces")
				}
				for i := range recs {
					rec := c16rec0(i)
					// per-record deviations
					switch c.Dev(fmt.Sprintf("r%d.iso", i), 3) {
					case 1:
						rec.iso = ""
					case 2:
						rec.iso = "EagI"
					}
					if c.Dev(fmt.Sprintf("r%d.site", i), 2) == 1 {
						rec.site = ""
					}
					if c.Dev(fmt.Sprintf("r%d.meth", i), 2) == 1 {
						rec.meth = ""
					}
					if c.Dev(fmt.Sprintf("r%d.org", i), 2) == 1 {
						rec.org = ""
					}
					if c.Dev(fmt.Sprintf("r%d.src", i), 2) == 1 {
						rec.src = ""
					}
					switch c.Dev(fmt.Sprintf("r%d.supp", i), 5) {
					case 1:
						rec.supp = ""
					case 2:
						rec.supp = "B" // the table's first letter
					case 3:
						rec.supp = "YKB"
					case 4:
						rec.supp = "BCEIJKMNOQRSVXY"
					}
					switch c.Dev(fmt.Sprintf("r%d.ref", i), 3) {
					case 1:
						rec.ref = ""
					case 2:
						rec.extraRef = 2
					}
					if l.table == 2 {
						// this listing's table has only Z and the first six letters
						rec.supp = map[string]string{"BN": "BZ", "": "", "B": "B", "YKB": "ZKB", "BCEIJKMNOQRSVXY": "ZBCEIJK"}[rec.supp]
					}
					if rec.supp != "" {
						tags = append(tags, "has-suppliers")
					}
					if strings.Contains(rec.supp, "B") {
						tags = append(tags, "first-table-letter")
					}
					recs[i] = rec
				}
				text := c16write(recs, l)
				var got map[string]rebase.Enzyme
				cas := fmt.Sprintf("records=%d layout=%+v deviations[%s]", n, l, c.Describe())
				if p := catch(func() { got = rebase.Parse(text) }); p != "" {
					r.Failf("no-panic", cas, tags, "a map", "panic: "+p)
					return true
				}
				cnt++
				if len(c.Describe()) > 0 {
					nt++
				}
				c16check(r, cas, tags, recs, got, l.table)
				if cnt == 20 {
					r.Sample(cas + "\n" + string(text[len(text)-min(len(text), 500):]))
				}
				return true
			})
			r.AddTransitions(int64(st.Transitions))
			r.Eval(cnt)
			r.AddStates(cnt)
			r.AddNontrivial(nt)
			r.Bound("listings", fmt.Sprintf("0..3 records; layouts and per-record field shapes with at most %d deviations from the default listing", dev))
		}})
	}
	// many records; file wrapper
	us = append(us, mc.Unit{Name: "large+file", Weight: 30, Run: func(r *mc.Recorder) {
		n := tier2(tier, 60, 300)
		recs := make([]c16rec, n)
		for i := range recs {
			recs[i] = c16rec0(i)
			recs[i].name = fmt.Sprintf("Enz%dI", i)
			recs[i].supp = []string{"", "B", "NY", "BCEIJKMNOQRSVXY"}[i%4]
			if i == 3 {
				// a record with several hundred isoschizomers and a very long reference: lines of more than 4096 bytes
				var iso []string
				for k := 0; k < 700; k++ {
					iso = append(iso, fmt.Sprintf("Iso%dI", k))
				}
				recs[i].iso = strings.Join(iso, ",")
				recs[i].ref = strings.Repeat("Author, A.B., ", 400) + "(1999) J. Long Ref., vol. 1, pp. 1-2."
			}
			if i%5 == 0 {
				recs[i].iso = ""
			}
		}
		for _, l := range []c16layout{{header: 1, blank: true, finalNL: true}, {header: 2, tabs: true, blank: false, finalNL: false}} {
			text := c16write(recs, l)
			var got map[string]rebase.Enzyme
			cas := fmt.Sprintf("records=%d layout=%+v", n, l)
			tags := []string{"has-suppliers", "first-table-letter"}
			if !l.tabs {
				tags = append(tags, "indent=spaces")
			}
			if p := catch(func() { got = rebase.Parse(text) }); p != "" {
				r.Failf("no-panic", cas, tags, "a map", "panic: "+p)
				continue
			}
			c16check(r, cas, tags, recs, got)
			dir, _ := os.MkdirTemp("", "c16")
			path := filepath.Join(dir, "r.txt")
			os.WriteFile(path, text, 0o644)
			g2, err := rebase.Read(path)
			os.RemoveAll(dir)
			if err != nil || !reflect.DeepEqual(g2, got) {
				r.Failf("read-file", cas, tags, "same as Parse", fmt.Sprint(err))
			}
			if err == nil {
				c16check(r, cas+" via Read", tags, recs, g2)
			}
		}
		r.Eval(2)
		r.AddStates(2)
		r.AddTransitions(2)
		r.AddNontrivial(2)
	}})
	// supplier tables in other orders and with repeated names x supplier strings of every length
	us = append(us, mc.Unit{Name: "supplier-tables", Weight: 20, Run: func(r *mc.Recorder) {
		var cnt int64
		for tv := 0; tv <= 4; tv++ {
			tab := c16table(tv)
			var letters string
			for _, t := range tab {
				letters += t.letter
			}
			var supps []string
			for i := 0; i < len(letters); i++ {
				supps = append(supps, letters[i:i+1], letters[:i+1], letters[i:])
				if i+3 <= len(letters) {
					supps = append(supps, letters[i:i+3], string([]byte{letters[i+2], letters[i+1], letters[i]}))
				}
			}
			for _, tabs := range []bool{false, true} {
				var recs []c16rec
				for i, sp := range supps {
					rc := c16rec0(i % 3)
					rc.name = fmt.Sprintf("Sup%dI", i)
					rc.supp = sp
					recs = append(recs, rc)
				}
				l := c16layout{table: tv, header: 1, tabs: tabs, blank: true, finalNL: true}
				var got map[string]rebase.Enzyme
				cas := fmt.Sprintf("supplier table variant %d, tabs=%v, %d records", tv, tabs, len(recs))
				tags := []string{"has-suppliers", "first-table-letter", "supplier-table"}
				if !tabs {
					tags = append(tags, "indent=spaces")
				}
				cnt++
				if p := catch(func() { got = rebase.Parse(c16write(recs, l)) }); p != "" {
					r.Failf("no-panic", cas, tags, "a map", "panic: "+p)
					continue
				}
				c16check(r, cas, tags, recs, got, tv)
			}
		}
		r.Eval(cnt)
		r.AddStates(cnt)
		r.AddTransitions(cnt)
		r.AddNontrivial(cnt)
		r.Bound("supplier-tables", "5 supplier tables (file order ascending, descending, interleaved, with an extra first letter, with repeated names) x supplier strings of every prefix, suffix, single letter, 3-letter window and reversed window")
	}})
	// header prose: every sequence of one, two and three lines from a dictionary of prose lines (look-alikes of the
	// supplier-table title and of supplier rows, bare angle brackets, very short and very long
	// lines, tabs, blank lines) in front of the supplier table
	us = append(us, mc.Unit{Name: "header-prose", Weight: 60, Run: func(r *mc.Recorder) {
		title := "REBASE codes for commercial sources of enzymes"
		dict := []string{"  " + title, title + "   ", "\t" + title, strings.ToUpper(title), title + ":", "see " + title + " below", "REBASE codes", "Notes", "x", "", "   ", "<", "<>", "1>", "                A        Fake Supplier Inc.", "\t\tB        Another one", "REBASE version 310                                              type31.310", strings.Repeat("long prose ", 500), "=-=-=-=-=-=-=-=", "Copyright (c)  Dr. Richard J. Roberts, 2023.   All rights reserved."}
		recs := []c16rec{c16rec0(0), c16rec0(1)}
		recs[0].supp, recs[1].supp = "BN", ""
		body := string(c16write(recs, c16layout{header: 0, blank: true, finalNL: true}))
		var cnt int64
		try := func(lines []string) {
			text := strings.Join(lines, "\n") + "\n" + body
			var got map[string]rebase.Enzyme
			cas := fmt.Sprintf("header prose lines %q", lines)
			if len(cas) > 300 {
				cas = cas[:300] + "..."
			}
			tags := []string{"has-suppliers", "first-table-letter", "indent=spaces", "prose"}
			cnt++
			if p := catch(func() { got = rebase.Parse([]byte(text)) }); p != "" {
				r.Failf("no-panic", cas, tags, "a map", "panic: "+p)
				return
			}
			c16check(r, cas, tags, recs, got)
		}
		for _, a := range dict {
			try([]string{a})
			for _, b := range dict {
				try([]string{a, b})
				for _, c := range dict {
					if r.Enough() {
						return
					}
					try([]string{a, b, c})
				}
			}
		}
		r.Eval(cnt)
		r.AddStates(cnt)
		r.AddTransitions(cnt)
		r.AddNontrivial(cnt)
		r.Bound("header-prose", fmt.Sprintf("every sequence of 1..3 lines over a dictionary of %d prose lines before the supplier table", len(dict)))
	}})
	return us
}

func init() {
	mc.Register(&mc.Harness{ID: "C16", Units: c16units,
		Rule:   "distinct listings laid out by an independent writer: every combination of at most k deviations (header prose, indent, blank lines, final newline, each field empty/filled, isoschizomer and supplier counts, extra reference lines) from the default listing; non-trivial = at least one deviation",
		Assume: []string{"field text never contains the markers <1>..<8>", "nil and empty lists are not distinguished"}})
}
