//go:build c10

package props

import (
	"fmt"
	"regexp"
	"sort"
	"strings"

	"github.com/TimothyStiles/poly/clone"

	"verif/mc"
)

type c10enz struct {
	name      string
	site      string
	skip, ohl int
	builtin   bool
}

var c10enzymes = []c10enz{
	{"BsaI", "GGTCTC", 1, 4, true},
	{"BbsI", "GAAGAC", 2, 4, true},
	{"BtgZI", "GCGATG", 10, 4, true},
	{"SapI-like", "GCTCTTC", 1, 3, false},
	{"BbvI-like", "GCAGC", 8, 4, false}, // odd length, outer bases mirror each other, not a palindrome
	{"HphI-like", "GGTGA", 8, 1, false}, // one-base overhang
	{"FauI-like", "CCCGC", 4, 2, false}, // two-base overhang
	{"BspMI-like", "ACCTGC", 4, 4, false},
	{"FokI-like", "GGATG", 9, 4, false},
}

func c10rc(s string) string {
	c := map[byte]byte{'A': 'T', 'C': 'G', 'G': 'C', 'T': 'A'}
	o := make([]byte, len(s))
	for i := 0; i < len(s); i++ {
		o[len(s)-1-i] = c[s[i]]
	}
	return string(o)
}

// filler: fixed pseudo-random sequence over A, T, C (no G, so no recognition
// site containing G can occur in it; the generator still verifies by scanning).
var c10filler = func() string {
	x := uint32(12345)
	b := make([]byte, 4000)
	for i := range b {
		x = x*1664525 + 1013904223
		b[i] = "ATCATTAC"[(x>>24)%8]
	}
	return string(b)
}()

type c10cut struct {
	start int
	fwd   bool
}

// c10oracle: fragments by enzyme geometry. circular: modular indexing.
func c10oracle(s string, e c10enz, circular bool) []string {
	s = strings.ToUpper(s)
	L := len(s)
	at := func(i int) byte { return s[((i%L)+L)%L] }
	match := func(i int, w string) bool {
		if !circular && i+len(w) > L {
			return false
		}
		for j := 0; j < len(w); j++ {
			if at(i+j) != w[j] {
				return false
			}
		}
		return true
	}
	sub := func(a, b int) string { // [a,b) walking clockwise
		var sb strings.Builder
		for i := a; i < b; i++ {
			sb.WriteByte(at(i))
		}
		return sb.String()
	}
	var cuts []c10cut
	rcs := c10rc(e.site)
	for i := 0; i < L; i++ {
		if match(i, e.site) {
			st := i + len(e.site) + e.skip
			if circular {
				cuts = append(cuts, c10cut{st % L, true})
			} else if st+e.ohl <= L {
				cuts = append(cuts, c10cut{st, true})
			}
		}
		if match(i, rcs) {
			st := i - e.skip - e.ohl
			if circular {
				cuts = append(cuts, c10cut{((st % L) + L) % L, false})
			} else if st >= 0 {
				cuts = append(cuts, c10cut{st, false})
			}
		}
	}
	sort.Slice(cuts, func(i, j int) bool { return cuts[i].start < cuts[j].start })
	var out []string
	n := len(cuts)
	for i := 0; i < n; i++ {
		j := i + 1
		if j == n {
			if !circular || n < 2 {
				break
			}
			j = 0
		}
		a, b := cuts[i], cuts[j]
		if !(a.fwd && !b.fwd) {
			continue
		}
		bs := b.start
		if bs < a.start {
			bs += L
		}
		out = append(out, sub(a.start, a.start+e.ohl)+"|"+sub(a.start+e.ohl, bs)+"|"+sub(bs, bs+e.ohl))
	}
	sort.Strings(out)
	return out
}

// count occurrences of the site and its reverse complement on the circular string
func c10count(s string, e c10enz) int {
	d := s + s[:len(e.site)-1]
	n := 0
	for _, w := range []string{e.site, c10rc(e.site)} {
		for i := 0; i+len(w) <= len(d); i++ { // overlapping occurrences count too (strings.Count skips them)
			if d[i:i+len(w)] == w {
				n++
			}
		}
	}
	return n
}

func c10enzyme(e c10enz) clone.Enzyme {
	return clone.Enzyme{Name: e.name, RegexpFor: regexp.MustCompile(e.site), RegexpRev: regexp.MustCompile(c10rc(e.site)), Skip: e.skip, OverhangLen: e.ohl, RecognitionSite: e.site}
}

func c10digest(e c10enz, p clone.Part) (out []string, panicked string) {
	var fr []clone.Fragment
	panicked = catch(func() {
		if e.builtin {
			var err error
			fr, err = clone.CutWithEnzymeByName(p, true, e.name)
			if err != nil {
				panic("error: " + err.Error())
			}
		} else {
			fr = clone.CutWithEnzyme(p, true, c10enzyme(e))
		}
	})
	for _, f := range fr {
		out = append(out, f.ForwardOverhang+"|"+f.Sequence+"|"+f.ReverseOverhang)
	}
	sort.Strings(out)
	return
}

// c10ring lays out k sites with the given orientations and gap extras.
func c10ring(e c10enz, orient []bool, gaps []int) string {
	cur := 0
	take := func(n int) string {
		s := c10filler[cur : cur+n]
		cur += n
		return s
	}
	var b strings.Builder
	for i, fwd := range orient {
		if fwd {
			b.WriteString(e.site + take(e.skip+e.ohl))
		} else {
			b.WriteString(take(e.ohl+e.skip) + c10rc(e.site))
		}
		switch gaps[i] {
		case -99: // nothing between this site's overhang and the next site's: an empty interior
		case -98:
			b.WriteString(take(1))
		default:
			b.WriteString(take(e.ohl + gaps[i]))
		}
	}
	if len(orient) == 0 {
		b.WriteString(take(40))
	}
	// pad short rings so that every plasmid has at least 20 bases
	for b.Len() < 20 {
		b.WriteString(take(5))
	}
	return b.String()
}

func mixCase(s string) string {
	b := []byte(strings.ToLower(s))
	for i := range b {
		if i%3 == 0 {
			b[i] -= 32
		}
	}
	return string(b)
}

func c10units(tier string) []mc.Unit {
	var us []mc.Unit
	thorough := tier == "thorough"
	maxK := tier2(tier, 3, 4)
	gapVals := []int{0, 7, -99} // -99: cuts exactly two overhang lengths apart (empty interior); -98: one base between
	if thorough {
		gapVals = []int{0, 1, 7, 23, -99, -98}
	}
	enz := c10enzymes[:7]
	if thorough {
		enz = c10enzymes
	}
	for _, e := range enz {
		for k := 0; k <= maxK; k++ {
			e, k := e, k
			us = append(us, mc.Unit{Name: fmt.Sprintf("%s/k=%d", e.name, k), Weight: int(pow(2*len(gapVals), k)) * 10, Run: func(r *mc.Recorder) {
				var cnt, rings, nt, discarded int64
				for om := 0; om < 2<<k; om++ {
					rep := om >> k // 0: the ring as laid out; 1: the ring's text twice (k in 1..2 only)
					if rep == 1 && (k == 0 || k > 2) {
						continue
					}
					orient := make([]bool, k)
					for i := range orient {
						orient[i] = om&(1<<i) != 0
					}
					gi := make([]int, k)
					for {
						gaps := make([]int, k)
						for i := range gaps {
							gaps[i] = gapVals[gi[i]]
						}
						ring := c10ring(e, orient, gaps)
						wantSites := k
						if rep == 1 {
							// the same cassette twice on one plasmid: identical fragments must both be reported
							ring = ring + ring
							wantSites = 2 * k
						}
						if c10count(ring, e) != wantSites {
							discarded++ // accidental site in filler or across a junction: outside the quantifier
						} else {
							rings++
							L := len(ring)
							want := c10oracle(ring, e, true)
							if len(want) > 0 {
								nt++
							}
							tags := []string{"enzyme=" + e.name}
							for rot := 0; rot < L; rot++ {
								s := ring[rot:] + ring[:rot]
								// the oracle itself must be rotation independent (self-check of the model)
								if w2 := c10oracle(s, e, true); strings.Join(w2, ",") != strings.Join(want, ",") {
									panic("oracle not rotation independent")
								}
								for ci, v := range []string{s, strings.ToLower(s), mixCase(s)} {
									got, p := c10digest(e, clone.Part{Sequence: v, Circular: true})
									cnt++
									cas := fmt.Sprintf("%s circular orient=%v gaps=%v twice=%d rot=%d case=%d seq=%s", e.name, orient, gaps, rep, rot, ci, s)
									if p != "" {
										r.Failf("no-panic", cas, tags, strings.Join(want, " "), "panic: "+p)
									} else if strings.Join(got, ",") != strings.Join(want, ",") {
										clause := "circular-fragments"
										if ci > 0 {
											if g0, _ := c10digest(e, clone.Part{Sequence: s, Circular: true}); strings.Join(g0, ",") == strings.Join(want, ",") {
												clause = "case-insensitive"
											}
										}
										r.Failf(clause, cas, tags, strings.Join(want, " "), strings.Join(got, " "))
									}
								}
								// the same string as a linear part
								wl := c10oracle(s, e, false)
								got, p := c10digest(e, clone.Part{Sequence: s, Circular: false})
								cnt++
								cas := fmt.Sprintf("%s linear orient=%v gaps=%v rot=%d seq=%s", e.name, orient, gaps, rot, s)
								if p != "" {
									r.Failf("no-panic", cas, tags, strings.Join(wl, " "), "panic: "+p)
								} else if strings.Join(got, ",") != strings.Join(wl, ",") {
									r.Failf("linear-fragments", cas, tags, strings.Join(wl, " "), strings.Join(got, " "))
								}
							}
							if rings == 3 {
								r.Sample(fmt.Sprintf("%s ring orient=%v gaps=%v (%d bases, every rotation, 3 letter cases, and linear at every offset): %s -> %v", e.name, orient, gaps, L, ring, want))
							}
						}
						// next gap vector
						i := 0
						for i < k {
							gi[i]++
							if gi[i] < len(gapVals) {
								break
							}
							gi[i] = 0
							i++
						}
						if i == k {
							break
						}
					}
				}
				r.Eval(cnt)
				r.AddStates(cnt)
				r.AddTransitions(cnt)
				r.AddNontrivial(nt)
				r.Bound("layouts", fmt.Sprintf("k<=%d sites, both orientations, gap extras %v, every rotation x 3 letter cases circular + linear at every offset", maxK, gapVals))
				if discarded > 0 {
					r.Bound("discarded/"+e.name+fmt.Sprint(k), fmt.Sprintf("%d layouts discarded (accidental site)", discarded))
				}
			}})
		}
	}
	// unknown enzyme name is an error, not a panic
	us = append(us, mc.Unit{Name: "unknown-enzyme", Run: func(r *mc.Recorder) {
		var err error
		p := catch(func() {
			_, err = clone.CutWithEnzymeByName(clone.Part{Sequence: "ACGT", Circular: false}, true, "NoSuchI")
		})
		if p != "" || err == nil {
			r.Failf("unknown-enzyme", "NoSuchI", nil, "error", fmt.Sprint(p, err))
		}
		r.Eval(1)
	}})
	return us
}

func init() {
	mc.Register(&mc.Harness{ID: "C10", Units: c10units,
		Rule:   "distinct (enzyme, layout, rotation/offset, letter case, topology) digests, enumerated completely within the layout bounds; non-trivial = rings that yield at least one fragment",
		Assume: []string{"layouts restricted as the quantifier says: planted site occurrences only (verified by scanning), non-overlapping footprints, paired cuts >= 2 overhang lengths apart", "oracle: modular-index cut geometry"}})
}
