//go:build c14

package props

import (
	"fmt"
	"os"
	"path/filepath"
	"strings"

	"github.com/TimothyStiles/poly"
	"github.com/TimothyStiles/poly/io/gff"

	"verif/mc"
)

// the same record as a poly.Sequence, for Build
func c14poly(r c14rec) poly.Sequence {
	var s poly.Sequence
	s.Meta.Name = r.name
	s.Meta.GffVersion = "3"
	s.Meta.RegionStart = r.rstart
	s.Meta.RegionEnd = r.rend
	s.Sequence = r.seq
	for _, f := range r.feats {
		pf := poly.Feature{Name: f.seqid, Source: f.source, Type: f.typ, Score: f.score, Strand: f.strand, Phase: f.phase, Attributes: map[string]string{}}
		for k, v := range f.attrs {
			pf.Attributes[k] = v
		}
		pf.SequenceLocation = poly.Location{Start: f.start - 1, End: f.end}
		s.AddFeature(&pf)
	}
	return s
}

func c14check(r *mc.Recorder, cas string, tags []string, rec c14rec, got poly.Sequence) {
	fail := func(clause, exp, g string) { r.Failf(clause, cas, tags, exp, g) }
	if got.Meta.Name != rec.name || got.Meta.RegionStart != rec.rstart || got.Meta.RegionEnd != rec.rend {
		fail("region", fmt.Sprintf("%s %d %d", rec.name, rec.rstart, rec.rend), fmt.Sprintf("%s %d %d", got.Meta.Name, got.Meta.RegionStart, got.Meta.RegionEnd))
	}
	if got.Sequence != rec.seq {
		fail("sequence", fmt.Sprintf("%d letters %s", len(rec.seq), q(rec.seq)), fmt.Sprintf("%d letters %s", len(got.Sequence), q(got.Sequence)))
	}
	if len(got.Features) != len(rec.feats) {
		fail("features", fmt.Sprint(len(rec.feats), " features"), fmt.Sprint(len(got.Features), " features"))
		return
	}
	for i, f := range rec.feats {
		g := got.Features[i]
		want := fmt.Sprintf("%s|%s|%s|%s|%s|%s|%s", f.seqid, f.source, f.typ, f.score, f.strand, f.phase, attrString(f.attrs))
		have := fmt.Sprintf("%s|%s|%s|%s|%s|%s|%s", g.Name, g.Source, g.Type, g.Score, g.Strand, g.Phase, attrString(g.Attributes))
		if want != have {
			fail("feature-fields", fmt.Sprintf("feature %d %s", i, want), have)
		}
		if g.SequenceLocation.Start != f.start-1 || g.SequenceLocation.End != f.end {
			fail("coordinates", fmt.Sprintf("feature %d [%d,%d) in memory for %d..%d in the file", i, f.start-1, f.end, f.start, f.end), fmt.Sprintf("[%d,%d)", g.SequenceLocation.Start, g.SequenceLocation.End))
			continue
		}
		var fs string
		if p := catch(func() { fs = g.GetSequence() }); p != "" {
			fail("feature-sequence", rec.seq[f.start-1:f.end], "panic: "+p)
		} else if fs != rec.seq[f.start-1:f.end] {
			fail("feature-sequence", q(rec.seq[f.start-1:f.end]), q(fs))
		}
	}
}

func c14units(tier string) []mc.Unit {
	dev := tier2(tier, 2, 3)
	var us []mc.Unit
	lengths := []int{}
	for n := 1; n <= 141; n++ {
		lengths = append(lengths, n)
	}
	lengths = append(lengths, 210, 5000)
	for _, n := range lengths {
		n := n
		us = append(us, mc.Unit{Name: fmt.Sprintf("len=%d", n), Weight: 10, Run: func(r *mc.Recorder) {
			seq := c14seq(n)
			var cnt, nt int64
			var prevOut []byte
			var prevCopy, prevCas string
			st := mc.Explore(mc.Options{DevBound: dev, PreemptBound: -1}, func(c *mc.Ctx) bool {
				rec := c14rec{name: "NC_000913.3", rstart: 1, rend: n, seq: seq}
				if n >= 5 && c.Dev("region", 2) == 1 {
					rec.rstart = 5
				}
				nf := []int{1, 0, 2, 3}[c.Dev("features", 4)]
				for i := 0; i < nf; i++ {
					f := c14feat{seqid: "NC_000913.3", source: "RefSeq", typ: "gene", start: 1, end: n, score: ".", strand: "+", phase: ".", attrs: map[string]string{"ID": "gene0001"}}
					switch c.Dev(fmt.Sprintf("f%d.coord", i), 4) {
					case 1:
						f.start, f.end = 1, 1
					case 2:
						f.start, f.end = n, n
					case 3:
						f.start, f.end = (n+2)/3, (2*n+2)/3
						if f.start < 1 {
							f.start = 1
						}
						if f.end < f.start {
							f.end = f.start
						}
					}
					f.strand = []string{"+", "-", "."}[c.Dev(fmt.Sprintf("f%d.strand", i), 3)]
					f.phase = []string{".", "0", "1", "2"}[c.Dev(fmt.Sprintf("f%d.phase", i), 4)]
					f.score = []string{".", "0.5"}[c.Dev(fmt.Sprintf("f%d.score", i), 2)]
					na := []int{1, 2, 3, 6}[c.Dev(fmt.Sprintf("f%d.attrs", i), 4)]
					f.attrs = map[string]string{}
					blanks := c.Dev(fmt.Sprintf("f%d.blanks", i), 3) // attribute values may begin or end with a blank
					for k := 0; k < na; k++ {
						v := c14attrMenu[k][1]
						switch blanks {
						case 1:
							v += " "
						case 2:
							v = " " + v
						}
						f.attrs[c14attrMenu[k][0]] = v
					}
					if i > 0 {
						f.typ, f.source = "CDS", "Genbank"
					}
					rec.feats = append(rec.feats, f)
				}
				writer := c.Dev("writer", 4) // 0 = gff.Build, 1..3 = independent writer at width 70, 60, none
				finalNL := c.Dev("final-newline", 2) == 0
				hashes := c.Dev("hashes", 2) == 0
				tags := []string{fmt.Sprintf("len%%70=%d", n%70)}
				var text []byte
				cas := fmt.Sprintf("len=%d %s", n, c.Describe())
				if writer == 0 {
					if p := catch(func() { text = gff.Build(c14poly(rec)) }); p != "" {
						r.Failf("no-panic", cas+" Build", tags, "text", "panic: "+p)
						return true
					}
					// text returned by an earlier Build must not change when Build is called again
					if prevOut != nil && string(prevOut) != prevCopy {
						r.Failf("written-text-stable", prevCas+" (text re-read after a later Build)", tags, q(prevCopy), q(string(prevOut)))
					}
					prevOut, prevCopy, prevCas = text, string(text), cas
					if !finalNL {
						text = []byte(strings.TrimSuffix(string(text), "\n"))
					}
				} else {
					text = c14write(rec, []int{70, 60, 0}[writer-1], finalNL, hashes)
				}
				var got poly.Sequence
				cnt++
				if p := catch(func() { got = gff.Parse(text) }); p != "" {
					clause := "write-read-no-panic"
					if writer != 0 {
						clause = "parse-no-panic"
					}
					r.Failf(clause, cas, tags, "a record", "panic: "+p)
					return true
				}
				if c.Describe() != "" {
					nt++
				}
				c14check(r, cas, tags, rec, got)
				if cnt == 30 {
					r.Sample(cas + "\n" + q(string(text)))
				}
				return true
			})
			r.AddTransitions(int64(st.Transitions))
			r.Eval(cnt)
			r.AddStates(cnt)
			r.AddNontrivial(nt)
			r.Bound("records", fmt.Sprintf("every sequence length 1..141 (all residues mod 70, twice), 210, 5000; record shapes with at most %d deviations (region, 0..3 features, coordinates, strand, phase, score, 1..6 attributes, writer Build/70/60/unwrapped, final newline, ### line)", dev))
		}})
	}
	// many features; file wrappers
	us = append(us, mc.Unit{Name: "many-features+files", Weight: 30, Run: func(r *mc.Recorder) {
		n := 500
		rec := c14rec{name: "chr1", rstart: 1, rend: n, seq: c14seq(n)}
		for i := 0; i < 30; i++ {
			f := c14feat{seqid: "chr1", source: "src", typ: "gene", start: 1 + i*7, end: 20 + i*11, score: ".", strand: []string{"+", "-", "."}[i%3], phase: []string{".", "0", "1", "2"}[i%4], attrs: map[string]string{}}
			for k := 0; k <= i%6; k++ {
				f.attrs[c14attrMenu[k][0]] = c14attrMenu[k][1] + fmt.Sprint(i)
			}
			rec.feats = append(rec.feats, f)
		}
		var got poly.Sequence
		if p := catch(func() { got = gff.Parse(gff.Build(c14poly(rec))) }); p != "" {
			r.Failf("write-read-no-panic", "30 features", nil, "a record", p)
		} else {
			c14check(r, "30 features via Build", nil, rec, got)
		}
		dir, _ := os.MkdirTemp("", "c14")
		defer os.RemoveAll(dir)
		path := filepath.Join(dir, "t.gff")
		if p := catch(func() { gff.Write(c14poly(rec), path); got = gff.Read(path) }); p != "" {
			r.Failf("write-read-no-panic", "Write/Read via file", nil, "a record", p)
		} else {
			c14check(r, "30 features via Write/Read", nil, rec, got)
		}
		// writing a shorter record over a longer one at the same path
		small := c14rec{name: "chr2", rstart: 1, rend: 9, seq: c14seq(9), feats: rec.feats[:1]}
		small.feats = []c14feat{{seqid: "chr2", source: "src", typ: "gene", start: 1, end: 9, score: ".", strand: "+", phase: ".", attrs: map[string]string{"ID": "x"}}}
		if p := catch(func() { gff.Write(c14poly(rec), path); gff.Write(c14poly(small), path); got = gff.Read(path) }); p != "" {
			r.Failf("write-read-no-panic", "Write long, Write short to the same path, Read", nil, "a record", p)
		} else {
			c14check(r, "Write of a long record, then Write of a short record to the same path, then Read", nil, small, got)
		}
		r.Eval(3)
		r.AddStates(3)
		r.AddTransitions(3)
		r.AddNontrivial(3)
	}})
	// the format's own keywords and sigils inside values: every token of the dictionary alone, as prefix, as suffix and
	// in the middle of an attribute value, of the source and of the type column, through Build and the independent writer
	us = append(us, mc.Unit{Name: "format-tokens", Weight: 30, Run: func(r *mc.Recorder) {
		var cnt int64
		n := 90
		tokens := []string{"##FASTA", "##gff-version 3", "##sequence-region chr1 1 9", "###", "##", "#", ">", ">chr1", "FASTA", "gff-version", "\\", "\"", "'", "%", "%3B", "&", ",", "|", "..", "  ", "(", ")", "[", "]", "{", "}", "<", "?", "*", "+", "-", ".", "@", "~", "^", "$", "!", "`", "/", "//", ":", "\u00e9", "\u4e2d"}
		for _, tok := range tokens {
			for place := 0; place < 4; place++ {
				v := []string{tok, tok + " tail", "head " + tok, "head " + tok + " tail"}[place]
				for col := 0; col < 5; col++ {
					f := c14feat{seqid: "chr1", source: "src", typ: "gene", start: 2, end: 40, score: ".", strand: "+", phase: ".", attrs: map[string]string{"ID": "g1", "Note": "plain"}}
					f2 := c14feat{seqid: "chr1", source: "src2", typ: "CDS", start: 41, end: 80, score: "0.5", strand: "-", phase: "0", attrs: map[string]string{"ID": "g2"}}
					switch col {
					case 0:
						f.attrs["Note"] = v
					case 1:
						if strings.ContainsAny(v, " ") || strings.HasPrefix(v, "#") || strings.HasPrefix(v, ">") {
							v = "s" + strings.ReplaceAll(v, " ", "_")
						}
						f.source = v
					case 2:
						if strings.ContainsAny(v, " ") || strings.HasPrefix(v, "#") || strings.HasPrefix(v, ">") {
							v = "t" + strings.ReplaceAll(v, " ", "_")
						}
						f.typ = v
					case 4: // inside the seqid (which has no blanks and, by the GFF3 rules, does not begin with '>' or '#')
						v = "chr_" + strings.ReplaceAll(v, " ", "_")
						f.seqid = v
					case 3: // as (part of) an attribute key: keys are free text too, short of the delimiters
						if strings.ContainsAny(v, "=;") {
							continue
						}
						f.attrs["key-"+v] = "value of a key with " + fmt.Sprint(len(v)) + " letters"
						f.attrs[v+".suffix"] = "second"
					}
					rec := c14rec{name: "chr1", rstart: 1, rend: n, seq: c14seq(n), feats: []c14feat{f, f2}}
					for w := 0; w < 2; w++ {
						var text []byte
						cas := fmt.Sprintf("token %q as %s in %s, writer %s", tok, []string{"whole value", "prefix", "suffix", "infix"}[place], []string{"an attribute value", "the source column", "the type column", "an attribute key", "the seqid column"}[col], []string{"Build", "independent"}[w])
						if w == 0 {
							if p := catch(func() { text = gff.Build(c14poly(rec)) }); p != "" {
								r.Failf("no-panic", cas, []string{"token"}, "text", "panic: "+p)
								continue
							}
						} else {
							text = c14write(rec, 70, true, false)
						}
						var got poly.Sequence
						cnt++
						if p := catch(func() { got = gff.Parse(text) }); p != "" {
							r.Failf(map[int]string{0: "write-read-no-panic", 1: "parse-no-panic"}[w], cas, []string{"token"}, "a record", "panic: "+p)
							continue
						}
						c14check(r, cas, []string{"token"}, rec, got)
					}
				}
			}
		}
		r.Eval(cnt)
		r.AddStates(cnt)
		r.AddTransitions(cnt)
		r.AddNontrivial(cnt)
		r.Bound("format-tokens", fmt.Sprintf("%d tokens (the format's directives and sigils, punctuation, non-ASCII) x 4 placements x 5 places (attribute value, source, type, attribute key, seqid) x 2 writers", len(tokens)))
	}})
	// region bounds that differ from the extent of the sequence, and features that repeat one another's ID, type and
	// strand (exons of one transcript): bounds, full sequence and every feature line come back as written
	us = append(us, mc.Unit{Name: "regions-and-shared-ids", Weight: 30, Run: func(r *mc.Recorder) {
		var cnt int64
		for _, n := range []int{71, 140, 141, 200, 280, 700} {
			for _, rs := range []int{1, 5, 71} {
				for _, re := range []int{70, 140, 210, n - 1, n, n + 70, 2 * n} {
					if re < rs {
						continue
					}
					for shared := 0; shared < 3; shared++ {
						rec := c14rec{name: "chr1", rstart: rs, rend: re, seq: c14seq(n)}
						for i := 0; i < 3; i++ {
							f := c14feat{seqid: "chr1", source: "src", typ: "exon", start: 2 + 20*i, end: 15 + 20*i, score: ".", strand: "+", phase: ".", attrs: map[string]string{"ID": fmt.Sprintf("exon%d", i), "Parent": "mRNA1"}}
							switch shared {
							case 1:
								f.attrs["ID"] = "exon1"
							case 2:
								f.attrs = map[string]string{"ID": "cds1", "Name": "same"}
								f.typ, f.phase = "CDS", "0"
							}
							rec.feats = append(rec.feats, f)
						}
						for w := 0; w < 2; w++ {
							var text []byte
							cas := fmt.Sprintf("%d bases, region %d..%d, three features (ID sharing mode %d), writer %s", n, rs, re, shared, []string{"Build", "independent"}[w])
							if w == 0 {
								if p := catch(func() { text = gff.Build(c14poly(rec)) }); p != "" {
									r.Failf("no-panic", cas, []string{"region"}, "text", "panic: "+p)
									continue
								}
							} else {
								text = c14write(rec, 70, true, false)
							}
							var got poly.Sequence
							cnt++
							if p := catch(func() { got = gff.Parse(text) }); p != "" {
								r.Failf(map[int]string{0: "write-read-no-panic", 1: "parse-no-panic"}[w], cas, []string{"region"}, "a record", "panic: "+p)
								continue
							}
							c14check(r, cas, []string{"region"}, rec, got)
						}
					}
				}
			}
		}
		r.Eval(cnt)
		r.AddStates(cnt)
		r.AddTransitions(cnt)
		r.AddNontrivial(cnt)
		r.Bound("regions-and-shared-ids", "6 sequence lengths x 3 region starts x 7 region ends (multiples of the line width, shorter and longer than the sequence) x 3 ID-sharing modes x 2 writers")
	}})
	// every feature count 0..70 and counts around 100, 128, 256, 1000, under several GOMAXPROCS settings
	us = append(us, mc.Unit{Name: "feature-counts", Weight: 40, Run: func(r *mc.Recorder) {
		var cnt int64
		counts := []int{99, 100, 101, 127, 128, 129, 255, 256, 257, 1000}
		for n := 0; n <= 70; n++ {
			counts = append(counts, n)
		}
		withProcs([]int{1, 4, 7}, func(procs int) {
			for _, nf := range counts {
				rec := c14rec{name: "chr1", rstart: 1, rend: 300, seq: c14seq(300)}
				for i := 0; i < nf; i++ {
					a := 1 + (i*7)%250
					rec.feats = append(rec.feats, c14feat{seqid: "chr1", source: "src", typ: []string{"gene", "CDS", "exon"}[i%3], start: a, end: a + i%40, score: ".", strand: []string{"+", "-", "."}[i%3], phase: []string{".", "0", "1", "2"}[i%4], attrs: map[string]string{"ID": fmt.Sprintf("f%d", i)}})
				}
				for w := 0; w < 2; w++ {
					var text []byte
					cas := fmt.Sprintf("%d features, GOMAXPROCS=%d, writer %s", nf, procs, []string{"Build", "independent"}[w])
					if w == 0 {
						if p := catch(func() { text = gff.Build(c14poly(rec)) }); p != "" {
							r.Failf("no-panic", cas, []string{"feature-count"}, "text", "panic: "+p)
							continue
						}
					} else {
						text = c14write(rec, 70, true, false)
					}
					var got poly.Sequence
					cnt++
					if p := catch(func() { got = gff.Parse(text) }); p != "" {
						r.Failf(map[int]string{0: "write-read-no-panic", 1: "parse-no-panic"}[w], cas, []string{"feature-count"}, "a record", "panic: "+p)
						continue
					}
					c14check(r, cas, []string{"feature-count"}, rec, got)
				}
			}
		})
		r.Eval(cnt)
		r.AddStates(cnt)
		r.AddTransitions(cnt)
		r.AddNontrivial(cnt)
		r.Bound("feature-counts", "every feature count 0..70 and 99..101, 127..129, 255..257, 1000, GOMAXPROCS 1, 4, 7, both writers")
	}})
	// file wrappers in every scratch directory (distinct file systems)
	us = append(us, mc.Unit{Name: "files/everywhere", Weight: 10, Run: func(r *mc.Recorder) {
		var cnt int64
		n := 200
		rec := c14rec{name: "chr1", rstart: 1, rend: n, seq: c14seq(n)}
		rec.feats = []c14feat{{seqid: "chr1", source: "src", typ: "gene", start: 3, end: 150, score: ".", strand: "-", phase: ".", attrs: map[string]string{"ID": "x", "Note": "two words"}}}
		for _, root := range scratchRoots() {
			dir, err := os.MkdirTemp(root, "verif-scratch-c14-")
			if err != nil {
				continue
			}
			path := filepath.Join(dir, "t.gff")
			var got poly.Sequence
			cnt++
			if p := catch(func() { gff.Write(c14poly(rec), path); got = gff.Read(path) }); p != "" {
				r.Failf("write-read-no-panic", "Write/Read via a file under "+root, []string{"files"}, "a record", p)
			} else {
				c14check(r, "Write/Read via a file under "+root, []string{"files"}, rec, got)
			}
			os.RemoveAll(dir)
		}
		r.Eval(cnt)
		r.AddStates(cnt)
		r.AddTransitions(cnt)
		r.AddNontrivial(cnt)
		r.Bound("files", fmt.Sprintf("Write/Read under each of %v", scratchRoots()))
	}})
	return us
}

func init() {
	mc.Register(&mc.Harness{ID: "C14", Units: c14units,
		Rule:   "distinct (sequence length, record shape, writer layout) files: lengths enumerated completely over two periods of the 70-column wrap, shapes with a deviation bound; non-trivial = at least one deviation from the default record",
		Assume: []string{"field text free of tab, newline, ';' and '='; seqids without white space; every feature has at least one attribute (as the quantifier says)"}})
}
