package props

import (
	"fmt"
	"sort"
	"strings"
)

// Abstract GFF3 record and independent writer (shared by C14 and C15).

type c14feat struct {
	seqid, source, typ   string
	start, end           int // file coordinates, 1-based inclusive
	score, strand, phase string
	attrs                map[string]string
}

type c14rec struct {
	name   string
	rstart int
	rend   int
	seq    string
	feats  []c14feat
}

func c14seq(n int) string {
	// non-periodic over ACGT so that a shifted coordinate yields different letters
	x := uint32(99)
	b := make([]byte, n)
	for i := range b {
		x = x*1664525 + 1013904223
		b[i] = "ACGT"[(x>>26)%4]
	}
	return string(b)
}

var c14attrMenu = [][2]string{{"ID", "gene0001"}, {"Name", "thr operon leader"}, {"Note", "a%2Cb identity 97%3B coverage 100%25 x%3Dy %09 %0A"}, {"Dbxref", "GeneID:1,UniProt:P1"}, {"locus_tag", "b0001"}, {"product", "hypothetical protein (50 %)"}}

func attrString(m map[string]string) string {
	var k []string
	for x := range m {
		k = append(k, x)
	}
	sort.Strings(k)
	var p []string
	for _, x := range k {
		p = append(p, x+"="+m[x])
	}
	return strings.Join(p, ";")
}

// independent GFF3 writer
func c14write(r c14rec, width int, finalNL, hashes bool) []byte {
	var b strings.Builder
	b.WriteString("##gff-version 3\n")
	fmt.Fprintf(&b, "##sequence-region %s %d %d\n", r.name, r.rstart, r.rend)
	for _, f := range r.feats {
		fmt.Fprintf(&b, "%s\t%s\t%s\t%d\t%d\t%s\t%s\t%s\t%s\n", f.seqid, f.source, f.typ, f.start, f.end, f.score, f.strand, f.phase, attrString(f.attrs))
	}
	if hashes {
		b.WriteString("###\n")
	}
	b.WriteString("##FASTA\n>" + r.name + "\n")
	if width == 0 {
		b.WriteString(r.seq + "\n")
	} else {
		for i := 0; i < len(r.seq); i += width {
			e := i + width
			if e > len(r.seq) {
				e = len(r.seq)
			}
			b.WriteString(r.seq[i:e] + "\n")
		}
	}
	out := b.String()
	if !finalNL {
		out = strings.TrimSuffix(out, "\n")
	}
	return []byte(out)
}
