//go:build c02

package props

import (
	"fmt"
	"reflect"
	"strings"

	"github.com/TimothyStiles/poly"
	"github.com/TimothyStiles/poly/io/genbank"

	"verif/mc"
)

var c2parents = []string{"acggta", "ttgcac"}

// minimal record with one feature carrying the location
func c2record(loc, parent string) []byte {
	var b strings.Builder
	fmt.Fprintf(&b, "LOCUS       test%20d bp    DNA     linear   SYN 01-JAN-2000\n", len(parent))
	b.WriteString("DEFINITION  location test.\n")
	b.WriteString("FEATURES             Location/Qualifiers\n")
	b.WriteString("     misc_feature    " + loc + "\n")
	b.WriteString("                     /note=\"x\"\n")
	b.WriteString("ORIGIN\n")
	for i := 0; i < len(parent); i += 60 {
		fmt.Fprintf(&b, "%9d", i+1)
		for j := i; j < i+60 && j < len(parent); j += 10 {
			e := j + 10
			if e > len(parent) {
				e = len(parent)
			}
			b.WriteString(" " + parent[j:e])
		}
		b.WriteString("\n")
	}
	b.WriteString("//\n")
	return []byte(b.String())
}

func c2tags(e *locExpr) []string {
	var t []string
	var walk func(x *locExpr, inJoin bool)
	hasSingle, has3, has5, mixed, paren3 := false, false, false, false, false
	walk = func(x *locExpr, inJoin bool) {
		switch x.kind {
		case lkSingle:
			hasSingle = true
		case lkSpan:
			if x.p3 {
				has3 = true
			}
			if x.p5 {
				has5 = true
			}
		case lkJoin:
			plain, par := 0, 0
			for _, s := range x.subs {
				if s.kind == lkSpan || s.kind == lkSingle {
					plain++
				} else {
					par++
				}
			}
			if plain > 0 && par > 0 {
				mixed = true
			}
			if par >= 3 || (par == 1 && plain == 0) {
				paren3 = true
			}
		}
		for _, s := range x.subs {
			walk(s, x.kind == lkJoin)
		}
	}
	walk(e, false)
	if hasSingle {
		t = append(t, "single-base")
	}
	if has3 {
		t = append(t, "3prime-partial-span")
	}
	if has5 {
		t = append(t, "5prime-partial-span")
	}
	if mixed {
		t = append(t, "join-mixed-operands")
	}
	if paren3 {
		t = append(t, "join-3+parenthesised")
	}
	return t
}

// c2one judges one expression on every parent through the three seams.
func c2one(r *mc.Recorder, e *locExpr, parents []string, cnt *int64) {
	txt := e.text()
	tags := c2tags(e)
	for _, parent := range parents {
		want := e.eval(parent)
		// (a) text -> Parse -> GetSequence
		var got string
		var n int
		if p := catch(func() {
			s := genbank.Parse(c2record(txt, parent))
			n = len(s.Features)
			if n == 1 {
				got = s.Features[0].GetSequence()
			}
		}); p != "" {
			r.Failf("parsed-location-bases", txt+" on "+parent, tags, want, "panic: "+p)
		} else if n != 1 {
			r.Failf("parsed-location-bases", txt+" on "+parent, tags, want, fmt.Sprint(n, " features parsed"))
		} else if got != want {
			r.Failf("parsed-location-bases", txt+" on "+parent, tags, want, got)
		}
		// (b) structure -> AddFeature -> GetSequence
		seq := poly.Sequence{Sequence: parent}
		f := poly.Feature{Type: "misc_feature", SequenceLocation: e.toPoly()}
		if p := catch(func() {
			seq.AddFeature(&f)
			got = seq.Features[0].GetSequence()
		}); p != "" {
			r.Failf("assembled-location-bases", txt+" on "+parent, tags, want, "panic: "+p)
		} else if got != want {
			r.Failf("assembled-location-bases", txt+" on "+parent, tags, want, got)
		}
		*cnt += 2
	}
	// (a2) the same location in the records of a multi-record file: each feature reads its own record
	if len(parents) >= 2 {
		var seqs []poly.Sequence
		multi := string(c2record(txt, parents[0])) + string(c2record(txt, parents[1]))
		if p := catch(func() { seqs = genbank.ParseMulti([]byte(multi)) }); p != "" {
			r.Failf("parsed-location-bases", txt+" in a two-record file", tags, "two records", "panic: "+p)
		} else if len(seqs) == 2 {
			for k := 0; k < 2; k++ {
				var g string
				if len(seqs[k].Features) != 1 {
					continue
				}
				if p := catch(func() { g = seqs[k].Features[0].GetSequence() }); p != "" || g != e.eval(parents[k]) {
					r.Failf("parsed-location-bases", fmt.Sprintf("%s in record %d of a two-record file", txt, k+1), tags, e.eval(parents[k]), g+p)
				}
			}
		}
		*cnt += 2
	}
	// (d) text -> Parse -> structure -> text: the location the parser built is written back to valid INSDC
	// syntax denoting the same bases and the same partial ends
	{
		var rewritten string
		var nf int
		if p := catch(func() {
			s := genbank.Parse(c2record(txt, parents[0]))
			nf = len(s.Features)
			if nf == 1 {
				rewritten = genbank.BuildLocationString(s.Features[0].SequenceLocation)
			}
		}); p == "" && nf == 1 {
			*cnt++
			if back, err := insdcParse(rewritten); err != nil {
				r.Failf("written-location-valid-insdc", txt+" (parsed, then written from the structure)", tags, "valid INSDC syntax, e.g. "+txt, rewritten+" ("+err.Error()+")")
			} else {
				if g := back.eval(parents[0]); g != e.eval(parents[0]) {
					r.Failf("written-location-same-bases", txt+" (parsed, then written from the structure)", tags, e.eval(parents[0]), rewritten+" -> "+g)
				}
				if back.leafFlags() != e.leafFlags() {
					r.Failf("written-location-same-partial-ends", txt+" (parsed, then written from the structure)", tags, e.leafFlags(), rewritten+" -> "+back.leafFlags())
				}
			}
		}
	}
	// (c) structure -> text: valid INSDC, same bases, same partial ends; the structure that was written is
	// still the same afterwards (writing is not allowed to alter what it is given)
	var written string
	held := poly.Sequence{Sequence: parents[0]}
	hf := poly.Feature{Type: "misc_feature", SequenceLocation: e.toPoly()}
	held.AddFeature(&hf)
	if p := catch(func() { written = genbank.BuildLocationString(held.Features[0].SequenceLocation) }); p != "" {
		r.Failf("written-location", txt, tags, txt, "panic: "+p)
		return
	}
	*cnt++
	if !reflect.DeepEqual(held.Features[0].SequenceLocation, e.toPoly()) {
		r.Failf("writing-leaves-location-unchanged", txt, tags, fmt.Sprintf("%+v", e.toPoly()), fmt.Sprintf("%+v", held.Features[0].SequenceLocation))
	} else {
		var g string
		if p := catch(func() { g = held.Features[0].GetSequence() }); p != "" || g != e.eval(parents[0]) {
			r.Failf("writing-leaves-location-unchanged", txt+" on "+parents[0], tags, e.eval(parents[0]), g+p)
		}
	}
	back, err := insdcParse(written)
	if err != nil {
		r.Failf("written-location-valid-insdc", txt, tags, "valid INSDC syntax, e.g. "+txt, written+" ("+err.Error()+")")
		return
	}
	for _, parent := range parents {
		ok := true
		var g string
		if p := catch(func() { g = back.eval(parent) }); p != "" || g != e.eval(parent) {
			ok = false
		}
		if !ok {
			r.Failf("written-location-same-bases", txt+" on "+parent, tags, e.eval(parent), written+" -> "+g)
		}
	}
	if back.leafFlags() != e.leafFlags() {
		r.Failf("written-location-same-partial-ends", txt, tags, e.leafFlags(), written+" -> "+back.leafFlags())
	}
}

// every assignment of leaves (from alphabet) to the shape's placeholders
func c2fillAll(shape *locExpr, alphabet []*locExpr, f func(e *locExpr)) {
	k := shape.countLeaves()
	idx := make([]int, k)
	leaves := make([]*locExpr, k)
	for {
		for i, j := range idx {
			leaves[i] = alphabet[j]
		}
		n := 0
		f(shape.fill(leaves, &n))
		i := k - 1
		for i >= 0 {
			idx[i]++
			if idx[i] < len(alphabet) {
				break
			}
			idx[i] = 0
			i--
		}
		if i < 0 {
			return
		}
	}
}

// variants with partial markers on one span at a time
func c2clone(e *locExpr) *locExpr {
	c := *e
	c.subs = nil
	for _, s := range e.subs {
		c.subs = append(c.subs, c2clone(s))
	}
	return &c
}

func c2partials(e *locExpr, f func(v *locExpr)) {
	var spans []*locExpr
	var collect func(x *locExpr)
	collect = func(x *locExpr) {
		if x.kind == lkSpan {
			spans = append(spans, x)
		}
		for _, s := range x.subs {
			collect(s)
		}
	}
	collect(e)
	for _, s := range spans {
		for _, m := range [][2]bool{{true, false}, {false, true}, {true, true}} {
			s.p5, s.p3 = m[0], m[1]
			f(e)
			s.p5, s.p3 = false, false
		}
	}
}

func c2subset(all []*locExpr, texts ...string) []*locExpr {
	var out []*locExpr
	for _, t := range texts {
		for _, l := range all {
			if l.text() == t {
				out = append(out, l)
			}
		}
	}
	return out
}

func c02units(tier string) []mc.Unit {
	thorough := tier == "thorough"
	all := locLeaves(6)
	nine := c2subset(all, "1..2", "2..5", "4..6", "1..6", "3..4", "5..6", "3", "1", "6")
	four := c2subset(all, "1..2", "3..5", "6", "2..6")
	var us []mc.Unit
	type group struct {
		name     string
		ops, lvs int
		alpha    []*locExpr
		partials bool
	}
	var groups []group
	for ops := 0; ops <= 3; ops++ {
		for lv := 1; lv <= 2; lv++ {
			groups = append(groups, group{fmt.Sprintf("full27/ops=%d/leaves=%d", ops, lv), ops, lv, all, true})
		}
		if thorough {
			groups = append(groups, group{fmt.Sprintf("full27/ops=%d/leaves=3", ops), ops, 3, all, false})
			groups = append(groups, group{fmt.Sprintf("nine/ops=%d/leaves=3/partials", ops), ops, 3, nine, true})
			groups = append(groups, group{fmt.Sprintf("nine/ops=%d/leaves=4", ops), ops, 4, nine, false})
		} else {
			groups = append(groups, group{fmt.Sprintf("nine/ops=%d/leaves=3", ops), ops, 3, nine, ops <= 2})
		}
	}
	// arity sweep and deep nesting over the 4-leaf subset
	for k := 4; k <= 6; k++ {
		groups = append(groups, group{fmt.Sprintf("four/ops=1/leaves=%d", k), 1, k, four, false})
		groups = append(groups, group{fmt.Sprintf("four/ops=2/leaves=%d", k), 2, k, four[:tier2(tier, 2, 3)], false})
	}
	for _, g := range groups {
		g := g
		shapes := locShapes(g.ops, g.lvs, false)
		if len(shapes) == 0 {
			continue
		}
		for si, sh := range shapes {
			si, sh := si, sh
			us = append(us, mc.Unit{Name: fmt.Sprintf("%s/shape=%d", g.name, si), Weight: int(pow(len(g.alpha), g.lvs)/20) + 1, Run: func(r *mc.Recorder) {
				var cnt, trees int64
				c2fillAll(sh, g.alpha, func(e *locExpr) {
					c2one(r, e, c2parents, &cnt)
					trees++
					if g.partials {
						c2partials(e, func(v *locExpr) {
							c2one(r, v, c2parents, &cnt)
							trees++
						})
					}
					if trees == 3 {
						r.Sample(fmt.Sprintf("%s on %s -> %s; as text through Parse, as a structure through AddFeature, and written back by BuildLocationString", e.text(), c2parents[0], e.eval(c2parents[0])))
					}
				})
				r.Eval(cnt)
				r.AddStates(trees)
				r.AddTransitions(cnt)
				if g.ops > 0 {
					r.AddNontrivial(trees)
				}
				r.Bound("trees", "all expression trees with <=3 operators and <=2 leaves over all 21 spans + 6 single bases of a 6-base parent (x every single-span partial marking); 3 leaves over a 9-leaf subset"+map[bool]string{true: " and over the full alphabet; 4 leaves over the subset", false: ""}[thorough]+"; joins of 4..6 operands and 2-operator trees over a 4-leaf subset; two parents")
			}})
		}
	}
	// depth-4 chains and a long parent
	us = append(us, mc.Unit{Name: "deep+long", Weight: 50, Run: func(r *mc.Recorder) {
		var cnt, trees int64
		// complement(join(x,complement(join(y,z)))) and join(complement(join(x,complement(y))),z)
		for _, a := range four {
			for _, b := range four {
				for _, c := range four {
					e1 := &locExpr{kind: lkComp, subs: []*locExpr{{kind: lkJoin, subs: []*locExpr{a, {kind: lkComp, subs: []*locExpr{{kind: lkJoin, subs: []*locExpr{b, c}}}}}}}}
					e2 := &locExpr{kind: lkJoin, subs: []*locExpr{{kind: lkComp, subs: []*locExpr{{kind: lkJoin, subs: []*locExpr{a, {kind: lkComp, subs: []*locExpr{b}}}}}}, c}}
					e3 := &locExpr{kind: lkJoin, subs: []*locExpr{a, {kind: lkJoin, subs: []*locExpr{b, {kind: lkComp, subs: []*locExpr{{kind: lkJoin, subs: []*locExpr{c, a}}}}}}}}
					for _, e := range []*locExpr{e1, e2, e3} {
						c2one(r, e, c2parents, &cnt)
						trees++
					}
				}
			}
		}
		// a 2000-base parent with scaled coordinates
		x := uint32(7)
		pb := make([]byte, 2000)
		for i := range pb {
			x = x*1664525 + 1013904223
			pb[i] = "acgt"[(x>>27)%4]
		}
		long := string(pb)
		sc := func(l *locExpr) *locExpr {
			c := *l
			c.i = (l.i-1)*333 + 1
			c.j = l.j * 333
			if c.kind == lkSingle {
				c.j = c.i
			}
			return &c
		}
		for _, sh := range append(append(locShapes(1, 2, false), locShapes(2, 2, false)...), locShapes(3, 3, false)...) {
			var sub []*locExpr
			for _, l := range nine[:5] {
				sub = append(sub, sc(l))
			}
			c2fillAll(sh, sub, func(e *locExpr) {
				c2one(r, e, []string{long}, &cnt)
				trees++
			})
		}
		r.Eval(cnt)
		r.AddStates(trees)
		r.AddTransitions(cnt)
		r.AddNontrivial(trees)
		r.Bound("deep+long", "three depth-4 nesting patterns over a 4-leaf subset; all shapes up to 3 operators / 3 leaves on a 2000-base parent with scaled coordinates")
	}})
	// many features in one record (feature counts around 100, 128, 256 and 1000), under several GOMAXPROCS settings:
	// every feature still reads as its own location says
	us = append(us, mc.Unit{Name: "many-features", Weight: 60, Run: func(r *mc.Recorder) {
		var cnt int64
		parent := lcgString("acgt", 600, 3)
		locs := []string{"1..9", "complement(10..30)", "join(5..9,20..25)", "17", "complement(join(100..110,200..210,300..301))", "<50..60", "70..>90", "join(complement(400..410),500..520)", "600", "1..600", "complement(599..600)", "join(1..2,3..4,5..6,7..8,9..10,11..12)"}
		var exprs []*locExpr
		for _, l := range locs {
			e, err := insdcParse(l)
			if err != nil {
				panic(err)
			}
			exprs = append(exprs, e)
		}
		for _, nf := range []int{1, 2, 10, 50, 99, 100, 101, 103, 127, 128, 129, 250, 257, 1001} {
			var b strings.Builder
			fmt.Fprintf(&b, "LOCUS       many%20d bp    DNA     linear   SYN 01-JAN-2000\n", len(parent))
			b.WriteString("DEFINITION  many features.\nFEATURES             Location/Qualifiers\n")
			for i := 0; i < nf; i++ {
				fmt.Fprintf(&b, "     misc_feature    %s\n                     /note=\"feature %d\"\n", locs[(i*7+i/12)%len(locs)], i)
			}
			b.WriteString("ORIGIN\n")
			for i := 0; i < len(parent); i += 60 {
				fmt.Fprintf(&b, "%9d", i+1)
				for j := i; j < i+60 && j < len(parent); j += 10 {
					b.WriteString(" " + parent[j:j+10])
				}
				b.WriteString("\n")
			}
			b.WriteString("//\n")
			text := []byte(b.String())
			withProcs(procsMenu, func(procs int) {
				var got poly.Sequence
				cas := fmt.Sprintf("record with %d features, GOMAXPROCS=%d", nf, procs)
				if p := catch(func() { got = genbank.Parse(text) }); p != "" {
					r.Failf("no-panic", cas, []string{"many-features"}, "a record", "panic: "+p)
					return
				}
				if len(got.Features) != nf {
					r.Failf("parsed-feature-sequence", cas, []string{"many-features"}, fmt.Sprintf("%d features", nf), fmt.Sprint(len(got.Features)))
					return
				}
				for i := range got.Features {
					e := exprs[(i*7+i/12)%len(locs)]
					var g string
					cnt++
					if p := catch(func() { g = got.Features[i].GetSequence() }); p != "" || g != e.eval(parent) {
						r.Failf("parsed-feature-sequence", fmt.Sprintf("%s, feature %d with location %s", cas, i, e.text()), []string{"many-features"}, q(e.eval(parent)), q(g)+p)
						break
					}
				}
			})
		}
		r.Eval(cnt)
		r.AddStates(cnt)
		r.AddTransitions(cnt)
		r.AddNontrivial(cnt)
		r.Bound("many-features", fmt.Sprintf("records with 1..1001 features (14 counts) over 12 location texts, GOMAXPROCS in %v", procsMenu))
	}})
	// feature key x qualifier set x location (with every partial marking): the bases are a function of the location
	// alone, whatever the feature is and whatever qualifiers it carries
	us = append(us, mc.Unit{Name: "keys-and-qualifiers", Weight: 80, Run: func(r *mc.Recorder) {
		var cnt int64
		parent := "acggtattgcac"
		keys := []string{"CDS", "gene", "mRNA", "tRNA", "exon", "misc_feature", "5'UTR", "source"}
		quals := [][][2]string{
			{{"note", "x"}},
			{{"codon_start", "1"}},
			{{"codon_start", "2"}, {"translation", "MK"}},
			{{"codon_start", "3"}, {"transl_table", "11"}, {"product", "p"}},
			{{"pseudo", ""}, {"gene", "g"}},
			{{"transl_except", "(pos:4..6,aa:Sec)"}},
		}
		var leaves []*locExpr
		for _, t := range []string{"1..6", "2..4", "7..9", "4", "12", "3..12"} {
			e, err := insdcParse(t)
			if err != nil {
				panic(err)
			}
			leaves = append(leaves, e)
		}
		var exprs []*locExpr
		for _, sh := range append(append(locShapes(0, 1, false), locShapes(1, 1, false)...), append(locShapes(1, 2, false), locShapes(2, 2, false)...)...) {
			c2fillAll(sh, leaves, func(e *locExpr) {
				exprs = append(exprs, c2clone(e))
				c2partials(e, func(v *locExpr) { exprs = append(exprs, c2clone(v)) }) // v is e with flags set for the call only
			})
		}
		for _, key := range keys {
			for qi, qs := range quals {
				for _, e := range exprs {
					txt := e.text()
					want := e.eval(parent)
					var b strings.Builder
					fmt.Fprintf(&b, "LOCUS       test%20d bp    DNA     linear   SYN 01-JAN-2000\nDEFINITION  location test.\nFEATURES             Location/Qualifiers\n", len(parent))
					fmt.Fprintf(&b, "     %-16s%s\n", key, txt)
					attrs := map[string]string{}
					for _, kv := range qs {
						attrs[kv[0]] = kv[1]
						switch {
						case kv[1] == "":
							fmt.Fprintf(&b, "                     /%s\n", kv[0])
						case kv[0] == "codon_start" || kv[0] == "transl_table" || kv[0] == "transl_except":
							fmt.Fprintf(&b, "                     /%s=%s\n", kv[0], kv[1])
						default:
							fmt.Fprintf(&b, "                     /%s=\"%s\"\n", kv[0], kv[1])
						}
					}
					fmt.Fprintf(&b, "ORIGIN\n        1 %s %s\n//\n", parent[:10], parent[10:])
					cas := fmt.Sprintf("%s feature with qualifier set %d and location %s on %s", key, qi, txt, parent)
					var got string
					var n int
					cnt++
					if p := catch(func() {
						s := genbank.Parse([]byte(b.String()))
						n = len(s.Features)
						if n == 1 {
							got = s.Features[0].GetSequence()
						}
					}); p != "" || n != 1 || got != want {
						r.Failf("parsed-location-bases", cas, []string{"keys"}, want, fmt.Sprintf("%q (%d features) %s", got, n, p))
					}
					seq := poly.Sequence{Sequence: parent}
					f := poly.Feature{Type: key, Attributes: attrs, SequenceLocation: e.toPoly()}
					cnt++
					if p := catch(func() {
						seq.AddFeature(&f)
						got = seq.Features[0].GetSequence()
					}); p != "" || got != want {
						r.Failf("assembled-location-bases", cas, []string{"keys"}, want, got+p)
					}
				}
				if r.Enough() {
					return
				}
			}
		}
		r.Eval(cnt)
		r.AddStates(cnt)
		r.AddTransitions(cnt)
		r.AddNontrivial(cnt)
		r.Bound("keys-and-qualifiers", fmt.Sprintf("8 feature keys x 6 qualifier sets x %d locations (all shapes with <= 2 operators and <= 2 leaves over 6 leaves, every partial marking), parsed and assembled", len(exprs)))
	}})
	// after many failing calls (malformed locations, recovered): the in-domain battery once more
	us = append(us, mc.Unit{Name: "after-failures", Weight: 40, Run: func(r *mc.Recorder) {
		var cnt int64
		var fails []func()
		for _, bad := range []string{"order(1..2,4..5)", "join(1..2,4..5", "complement(", "1..", "..5", "x", "join()", "1^2", "bond(1,2)", "complement(complement(join(1..2", "J00194.1:1..3", "<", "join(1..2,)", "99999999999999999999..3"} {
			bad := bad
			fails = append(fails, func() {
				s := genbank.Parse(c2record(bad, "acggta"))
				for _, f := range s.Features {
					f.GetSequence()
				}
			})
		}
		soak(40, fails...)
		for _, a := range four {
			for _, b := range four {
				for _, c := range four {
					e := &locExpr{kind: lkJoin, subs: []*locExpr{a, {kind: lkComp, subs: []*locExpr{{kind: lkJoin, subs: []*locExpr{b, {kind: lkComp, subs: []*locExpr{c}}}}}}}}
					c2one(r, e, c2parents, &cnt)
				}
			}
		}
		r.Eval(cnt)
		r.AddStates(cnt)
		r.AddTransitions(cnt)
		r.AddNontrivial(cnt)
		r.Bound("after-failures", "40 rounds of 14 malformed locations (panics recovered), then all depth-4 chains over a 4-leaf subset")
	}})
	return us
}

func init() {
	mc.Register(&mc.Harness{ID: "C02", Units: c02units,
		Rule:   "distinct location expressions (tree shape x leaf assignment x partial marking), enumerated completely within the bounds, each through three seams on two parents; non-trivial = at least one operator",
		Assume: []string{"the strict INSDC reader and evaluator of the oracle (span 1-based inclusive, bare n one base, join concatenates in order, complement = reverse complement, partial markers ignored for bases)", "locations are driven through genbank.Parse on a minimal record (the public seam), not through an exported hook"}})
}
