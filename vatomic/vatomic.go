// Package vatomic stands in for "sync/atomic" in instrumented packages: every
// atomic operation is preceded by a scheduling point, so that check-then-act
// sequences built from atomics are interleaved by the explorer.
package vatomic

import (
	"sync/atomic"
	"unsafe"

	"verif/sched"
)

type Value struct{ v atomic.Value }

func (x *Value) Load() any                    { sched.Yield(); return x.v.Load() }
func (x *Value) Store(val any)                { sched.Yield(); x.v.Store(val) }
func (x *Value) Swap(n any) any               { sched.Yield(); return x.v.Swap(n) }
func (x *Value) CompareAndSwap(o, n any) bool { sched.Yield(); return x.v.CompareAndSwap(o, n) }

type Bool struct{ v atomic.Bool }

func (x *Bool) Load() bool                    { sched.Yield(); return x.v.Load() }
func (x *Bool) Store(val bool)                { sched.Yield(); x.v.Store(val) }
func (x *Bool) Swap(n bool) bool              { sched.Yield(); return x.v.Swap(n) }
func (x *Bool) CompareAndSwap(o, n bool) bool { sched.Yield(); return x.v.CompareAndSwap(o, n) }

type Int32 struct{ v atomic.Int32 }

func (x *Int32) Load() int32                    { sched.Yield(); return x.v.Load() }
func (x *Int32) Store(val int32)                { sched.Yield(); x.v.Store(val) }
func (x *Int32) Add(d int32) int32              { sched.Yield(); return x.v.Add(d) }
func (x *Int32) Swap(n int32) int32             { sched.Yield(); return x.v.Swap(n) }
func (x *Int32) CompareAndSwap(o, n int32) bool { sched.Yield(); return x.v.CompareAndSwap(o, n) }

type Int64 struct{ v atomic.Int64 }

func (x *Int64) Load() int64                    { sched.Yield(); return x.v.Load() }
func (x *Int64) Store(val int64)                { sched.Yield(); x.v.Store(val) }
func (x *Int64) Add(d int64) int64              { sched.Yield(); return x.v.Add(d) }
func (x *Int64) Swap(n int64) int64             { sched.Yield(); return x.v.Swap(n) }
func (x *Int64) CompareAndSwap(o, n int64) bool { sched.Yield(); return x.v.CompareAndSwap(o, n) }

type Uint32 struct{ v atomic.Uint32 }

func (x *Uint32) Load() uint32                    { sched.Yield(); return x.v.Load() }
func (x *Uint32) Store(val uint32)                { sched.Yield(); x.v.Store(val) }
func (x *Uint32) Add(d uint32) uint32             { sched.Yield(); return x.v.Add(d) }
func (x *Uint32) Swap(n uint32) uint32            { sched.Yield(); return x.v.Swap(n) }
func (x *Uint32) CompareAndSwap(o, n uint32) bool { sched.Yield(); return x.v.CompareAndSwap(o, n) }

type Uint64 struct{ v atomic.Uint64 }

func (x *Uint64) Load() uint64                    { sched.Yield(); return x.v.Load() }
func (x *Uint64) Store(val uint64)                { sched.Yield(); x.v.Store(val) }
func (x *Uint64) Add(d uint64) uint64             { sched.Yield(); return x.v.Add(d) }
func (x *Uint64) Swap(n uint64) uint64            { sched.Yield(); return x.v.Swap(n) }
func (x *Uint64) CompareAndSwap(o, n uint64) bool { sched.Yield(); return x.v.CompareAndSwap(o, n) }

type Pointer[T any] struct{ v atomic.Pointer[T] }

func (x *Pointer[T]) Load() *T                    { sched.Yield(); return x.v.Load() }
func (x *Pointer[T]) Store(val *T)                { sched.Yield(); x.v.Store(val) }
func (x *Pointer[T]) Swap(n *T) *T                { sched.Yield(); return x.v.Swap(n) }
func (x *Pointer[T]) CompareAndSwap(o, n *T) bool { sched.Yield(); return x.v.CompareAndSwap(o, n) }

func AddInt32(a *int32, d int32) int32     { sched.Yield(); return atomic.AddInt32(a, d) }
func AddInt64(a *int64, d int64) int64     { sched.Yield(); return atomic.AddInt64(a, d) }
func AddUint32(a *uint32, d uint32) uint32 { sched.Yield(); return atomic.AddUint32(a, d) }
func AddUint64(a *uint64, d uint64) uint64 { sched.Yield(); return atomic.AddUint64(a, d) }
func LoadInt32(a *int32) int32             { sched.Yield(); return atomic.LoadInt32(a) }
func LoadInt64(a *int64) int64             { sched.Yield(); return atomic.LoadInt64(a) }
func LoadUint32(a *uint32) uint32          { sched.Yield(); return atomic.LoadUint32(a) }
func LoadUint64(a *uint64) uint64          { sched.Yield(); return atomic.LoadUint64(a) }
func StoreInt32(a *int32, v int32)         { sched.Yield(); atomic.StoreInt32(a, v) }
func StoreInt64(a *int64, v int64)         { sched.Yield(); atomic.StoreInt64(a, v) }
func StoreUint32(a *uint32, v uint32)      { sched.Yield(); atomic.StoreUint32(a, v) }
func StoreUint64(a *uint64, v uint64)      { sched.Yield(); atomic.StoreUint64(a, v) }
func SwapInt32(a *int32, v int32) int32    { sched.Yield(); return atomic.SwapInt32(a, v) }
func SwapInt64(a *int64, v int64) int64    { sched.Yield(); return atomic.SwapInt64(a, v) }
func CompareAndSwapInt32(a *int32, o, n int32) bool {
	sched.Yield()
	return atomic.CompareAndSwapInt32(a, o, n)
}
func CompareAndSwapInt64(a *int64, o, n int64) bool {
	sched.Yield()
	return atomic.CompareAndSwapInt64(a, o, n)
}
func CompareAndSwapUint32(a *uint32, o, n uint32) bool {
	sched.Yield()
	return atomic.CompareAndSwapUint32(a, o, n)
}
func CompareAndSwapUint64(a *uint64, o, n uint64) bool {
	sched.Yield()
	return atomic.CompareAndSwapUint64(a, o, n)
}
func LoadPointer(a *unsafe.Pointer) unsafe.Pointer     { sched.Yield(); return atomic.LoadPointer(a) }
func StorePointer(a *unsafe.Pointer, v unsafe.Pointer) { sched.Yield(); atomic.StorePointer(a, v) }
func CompareAndSwapPointer(a *unsafe.Pointer, o, n unsafe.Pointer) bool {
	sched.Yield()
	return atomic.CompareAndSwapPointer(a, o, n)
}
