#!/usr/bin/env python3
"""Prints a markdown table of what each check covered, from /verif/evidence/*.json."""
import json, glob
print('| check | tier | executions | states | transitions | exhaustive | wall s | bounds (from the run) |')
print('|---|---|---|---|---|---|---|---|')
for f in sorted(glob.glob('/verif/evidence/*.json')):
    e = json.load(open(f)); c = e['coverage']
    b = c.get('bounds', {})
    keys = sorted(b)
    txt = '; '.join(f"{k}: {b[k]}" for k in keys[:3])
    if len(txt) > 420: txt = txt[:420] + '…'
    print(f"| {e['property_id']} | {e['tier']} | {c['evaluations']} | {c['states']} | {c['transitions']} | {c['exhaustive']} | {e['wall_s']:.1f} | {txt} |")
