#!/bin/sh
tier=$1; shift
cd /verif
for id in "$@"; do
  out=$(./bin/check $id $tier 2>&1); rc=$?
  echo "$out" | grep -E "^$id $tier:" | sed "s/^/exit=$rc /"
  echo "$out" | grep -E "^(VIOLATION|cap:|KNOWN-FINDING)" | cut -c1-160
done
