#!/bin/sh
# Runs every registered check at the given tier (default quick) and prints one line per check.
tier=${1:-quick}
cd /verif
for id in C01 C02 C03 C04 C05 C06 C07 C08 C09 C10 C11 C12 C13 C14 C15 C16 C17 C18 C19 C20; do
  out=$(./bin/check $id $tier 2>&1); rc=$?
  echo "$out" | grep -E "^$id $tier:" | sed "s/^/exit=$rc /"
  echo "$out" | grep -E "^(VIOLATION|cap:|KNOWN-FINDING)" | cut -c1-160
done
