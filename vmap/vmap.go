// Package vmap makes the iteration order of `for k, v := range m` an explorer
// choice. The Go specification leaves the order unspecified, so correct code
// must be correct under every order.
package vmap

import (
	"fmt"
	"sort"

	"verif/mc"
)

// Enabled turns map iteration order into explorer choices.
var Enabled bool

// Iterations counts map iterations whose order was chosen by the explorer.
var Iterations int

// FullPermMax: maps with at most this many keys are iterated in all n! orders;
// larger ones in all rotations of the sorted order and their reversals.
var FullPermMax = 4

type It[K comparable, V any] struct {
	m    map[K]V
	keys []K
	i    int
	k    K
	v    V
}

func nthPerm(n, idx int) []int {
	items := make([]int, n)
	for i := range items {
		items[i] = i
	}
	out := make([]int, 0, n)
	f := 1
	for i := 2; i < n; i++ {
		f *= i
	}
	for i := n; i >= 1; i-- {
		k := idx / f
		idx %= f
		out = append(out, items[k])
		items = append(items[:k], items[k+1:]...)
		if i > 1 {
			f /= (i - 1)
		}
	}
	return out
}

func Iter[K comparable, V any](m map[K]V) *It[K, V] {
	keys := make([]K, 0, len(m))
	for k := range m {
		keys = append(keys, k)
	}
	if Enabled && mc.Cur != nil && len(keys) > 1 {
		sort.Slice(keys, func(i, j int) bool { return fmt.Sprint(keys[i]) < fmt.Sprint(keys[j]) })
		n := len(keys)
		var p []int
		if n <= FullPermMax {
			f := 1
			for i := 2; i <= n; i++ {
				f *= i
			}
			p = nthPerm(n, mc.Cur.Any(fmt.Sprintf("maporder%d", n), f))
		} else {
			c := mc.Cur.Any(fmt.Sprintf("maprot%d", n), 2*n)
			p = make([]int, n)
			for i := range p {
				if c < n {
					p[i] = (i + c) % n
				} else {
					p[i] = (n - 1 - i + c) % n
				}
			}
		}
		Iterations++
		nk := make([]K, n)
		for i, j := range p {
			nk[i] = keys[j]
		}
		keys = nk
	}
	return &It[K, V]{m: m, keys: keys}
}

func (it *It[K, V]) Next() bool {
	for it.i < len(it.keys) {
		k := it.keys[it.i]
		it.i++
		if v, ok := it.m[k]; ok {
			it.k, it.v = k, v
			return true
		}
	}
	return false
}
func (it *It[K, V]) Key() K { return it.k }
func (it *It[K, V]) Val() V { return it.v }
